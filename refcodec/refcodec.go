// Package refcodec is a reference implementation of the Thrift binary protocol, written from
// the protocol description (field header = type byte + i16 id; i32 sizes; enum as i32; bool
// one byte; STOP = 0).  It shares no code with /repo.
package refcodec

import (
	"encoding/binary"
	"fmt"
	"math"
	"sort"

	"verif/idl"
)

const (
	TStop   = 0
	TBool   = 2
	TByte   = 3
	TDouble = 4
	TI16    = 6
	TI32    = 8
	TI64    = 10
	TString = 11
	TStruct = 12
	TMap    = 13
	TSet    = 14
	TList   = 15
)

// AllTypes lists the wire types that can appear in a field header / element type byte.
var AllTypes = []byte{TBool, TByte, TDouble, TI16, TI32, TI64, TString, TStruct, TMap, TSet, TList}

func TypeOf(t *idl.Type) byte {
	switch idl.WireCat(t) {
	case "bool":
		return TBool
	case "i8":
		return TByte
	case "i16":
		return TI16
	case "i32", "enum":
		return TI32
	case "i64":
		return TI64
	case "double":
		return TDouble
	case "string", "binary":
		return TString
	case "struct":
		return TStruct
	case "map":
		return TMap
	case "set":
		return TSet
	case "list":
		return TList
	}
	return 0
}

type Enc struct {
	B  []byte
	TB []int // offsets of every type byte written (field headers, element/key/value types)
}

func (e *Enc) u8(v byte)    { e.B = append(e.B, v) }
func (e *Enc) tb(v byte)    { e.TB = append(e.TB, len(e.B)); e.B = append(e.B, v) }
func (e *Enc) i16(v int16)  { e.B = binary.BigEndian.AppendUint16(e.B, uint16(v)) }
func (e *Enc) i32(v int32)  { e.B = binary.BigEndian.AppendUint32(e.B, uint32(v)) }
func (e *Enc) i64(v int64)  { e.B = binary.BigEndian.AppendUint64(e.B, uint64(v)) }
func (e *Enc) str(s string) { e.i32(int32(len(s))); e.B = append(e.B, s...) }

// FieldMark records where each top-level field of the encoded struct starts (for perturbations).
type FieldMark struct {
	ID    int32
	Start int // offset of the field header
	End   int // offset just after the field's value
	Depth int
	Def   *idl.Def
}

// Encode writes value v of type t.
func (e *Enc) Value(t *idl.Type, v *idl.Val, marks *[]FieldMark, depth int) error {
	r := t.Resolve()
	switch idl.WireCat(r) {
	case "bool":
		if v.B {
			e.u8(1)
		} else {
			e.u8(0)
		}
	case "i8":
		e.u8(byte(int8(v.I)))
	case "i16":
		e.i16(int16(v.I))
	case "i32", "enum":
		e.i32(int32(v.I))
	case "i64":
		e.i64(v.I)
	case "double":
		e.i64(int64(math.Float64bits(v.D)))
	case "string", "binary":
		e.str(v.S)
	case "list", "set":
		e.tb(TypeOf(r.Elem))
		e.i32(int32(len(v.L)))
		for _, x := range v.L {
			if err := e.Value(r.Elem, x, marks, depth+1); err != nil {
				return err
			}
		}
	case "map":
		e.tb(TypeOf(r.Key))
		e.tb(TypeOf(r.Elem))
		e.i32(int32(len(v.M)))
		for _, kv := range v.M {
			if err := e.Value(r.Key, kv[0], marks, depth+1); err != nil {
				return err
			}
			if err := e.Value(r.Elem, kv[1], marks, depth+1); err != nil {
				return err
			}
		}
	case "struct":
		return e.Struct(r.Ref, v, marks, depth)
	default:
		return fmt.Errorf("refcodec: cannot encode %s", t)
	}
	return nil
}

// Struct writes the fields present in v (in declaration order), then STOP.
func (e *Enc) Struct(d *idl.Def, v *idl.Val, marks *[]FieldMark, depth int) error {
	for _, f := range d.Fields {
		x, ok := v.F[f.ID]
		if !ok {
			continue
		}
		start := len(e.B)
		e.tb(TypeOf(f.Type))
		e.i16(int16(f.ID))
		if err := e.Value(f.Type, x, marks, depth+1); err != nil {
			return err
		}
		if marks != nil {
			*marks = append(*marks, FieldMark{ID: f.ID, Start: start, End: len(e.B), Depth: depth, Def: d})
		}
	}
	e.u8(TStop)
	return nil
}

// EncodeStruct is the reference encoding of a struct value (fields present in v only).
// EncodeStructTB also returns the offsets of all type bytes.
func EncodeStructTB(d *idl.Def, v *idl.Val) ([]byte, []FieldMark, []int) {
	e := &Enc{}
	var marks []FieldMark
	if err := e.Struct(d, v, &marks, 0); err != nil {
		panic(err)
	}
	return e.B, marks, e.TB
}

func EncodeStruct(d *idl.Def, v *idl.Val) ([]byte, []FieldMark, error) {
	e := &Enc{}
	var marks []FieldMark
	err := e.Struct(d, v, &marks, 0)
	return e.B, marks, err
}

// ---------- decoding ----------

type Dec struct {
	B   []byte
	Pos int
}

type DecodeError struct{ Msg string }

func (e *DecodeError) Error() string { return e.Msg }

func (d *Dec) need(n int) error {
	if n < 0 || d.Pos+n > len(d.B) {
		return &DecodeError{fmt.Sprintf("truncated: need %d bytes at offset %d of %d", n, d.Pos, len(d.B))}
	}
	return nil
}
func (d *Dec) u8() (byte, error) {
	if err := d.need(1); err != nil {
		return 0, err
	}
	v := d.B[d.Pos]
	d.Pos++
	return v, nil
}
func (d *Dec) i16() (int16, error) {
	if err := d.need(2); err != nil {
		return 0, err
	}
	v := int16(binary.BigEndian.Uint16(d.B[d.Pos:]))
	d.Pos += 2
	return v, nil
}
func (d *Dec) i32() (int32, error) {
	if err := d.need(4); err != nil {
		return 0, err
	}
	v := int32(binary.BigEndian.Uint32(d.B[d.Pos:]))
	d.Pos += 4
	return v, nil
}
func (d *Dec) i64() (int64, error) {
	if err := d.need(8); err != nil {
		return 0, err
	}
	v := int64(binary.BigEndian.Uint64(d.B[d.Pos:]))
	d.Pos += 8
	return v, nil
}
func (d *Dec) str() (string, error) {
	n, err := d.i32()
	if err != nil {
		return "", err
	}
	if err := d.need(int(n)); err != nil {
		return "", err
	}
	s := string(d.B[d.Pos : d.Pos+int(n)])
	d.Pos += int(n)
	return s, nil
}

// Skip consumes a value of wire type tt without a schema (generic well-formedness walker).
func (d *Dec) Skip(tt byte, depth int) error {
	if depth > 64 {
		return &DecodeError{"nesting too deep"}
	}
	switch tt {
	case TBool, TByte:
		_, err := d.u8()
		return err
	case TI16:
		_, err := d.i16()
		return err
	case TI32:
		_, err := d.i32()
		return err
	case TI64, TDouble:
		_, err := d.i64()
		return err
	case TString:
		_, err := d.str()
		return err
	case TStruct:
		for {
			ft, err := d.u8()
			if err != nil {
				return err
			}
			if ft == TStop {
				return nil
			}
			if _, err := d.i16(); err != nil {
				return err
			}
			if err := d.Skip(ft, depth+1); err != nil {
				return err
			}
		}
	case TList, TSet:
		et, err := d.u8()
		if err != nil {
			return err
		}
		n, err := d.i32()
		if err != nil {
			return err
		}
		if n < 0 {
			return &DecodeError{"negative size"}
		}
		for i := int32(0); i < n; i++ {
			if err := d.Skip(et, depth+1); err != nil {
				return err
			}
		}
		return nil
	case TMap:
		kt, err := d.u8()
		if err != nil {
			return err
		}
		vt, err := d.u8()
		if err != nil {
			return err
		}
		n, err := d.i32()
		if err != nil {
			return err
		}
		if n < 0 {
			return &DecodeError{"negative size"}
		}
		for i := int32(0); i < n; i++ {
			if err := d.Skip(kt, depth+1); err != nil {
				return err
			}
			if err := d.Skip(vt, depth+1); err != nil {
				return err
			}
		}
		return nil
	}
	return &DecodeError{fmt.Sprintf("invalid wire type %d at offset %d", tt, d.Pos)}
}

// WellFormed checks that b is exactly one struct in the binary protocol.
func WellFormed(b []byte) error {
	d := &Dec{B: b}
	if err := d.Skip(TStruct, 0); err != nil {
		return err
	}
	if d.Pos != len(b) {
		return &DecodeError{fmt.Sprintf("%d trailing bytes after the struct", len(b)-d.Pos)}
	}
	return nil
}

// Value decodes a value of IDL type t whose wire type byte was tt.
func (d *Dec) Value(t *idl.Type, depth int) (*idl.Val, error) {
	if depth > 64 {
		return nil, &DecodeError{"nesting too deep"}
	}
	r := t.Resolve()
	cat := idl.WireCat(r)
	switch cat {
	case "bool":
		b, err := d.u8()
		if err != nil {
			return nil, err
		}
		if b > 1 {
			return nil, &DecodeError{fmt.Sprintf("bool byte %d", b)}
		}
		return &idl.Val{Cat: cat, B: b == 1}, nil
	case "i8":
		b, err := d.u8()
		return &idl.Val{Cat: cat, I: int64(int8(b))}, err
	case "i16":
		x, err := d.i16()
		return &idl.Val{Cat: cat, I: int64(x)}, err
	case "i32":
		x, err := d.i32()
		return &idl.Val{Cat: cat, I: int64(x)}, err
	case "enum":
		x, err := d.i32()
		return &idl.Val{Cat: cat, I: int64(x), Def: r.Ref}, err
	case "i64":
		x, err := d.i64()
		return &idl.Val{Cat: cat, I: x}, err
	case "double":
		x, err := d.i64()
		return &idl.Val{Cat: cat, D: math.Float64frombits(uint64(x))}, err
	case "string", "binary":
		s, err := d.str()
		return &idl.Val{Cat: cat, S: s}, err
	case "list", "set":
		et, err := d.u8()
		if err != nil {
			return nil, err
		}
		n, err := d.i32()
		if err != nil {
			return nil, err
		}
		if n < 0 {
			return nil, &DecodeError{"negative size"}
		}
		if want := TypeOf(r.Elem); et != want && n > 0 {
			return nil, &DecodeError{fmt.Sprintf("%s element type byte %d, schema says %d", cat, et, want)}
		}
		out := &idl.Val{Cat: cat, L: []*idl.Val{}}
		for i := int32(0); i < n; i++ {
			x, err := d.Value(r.Elem, depth+1)
			if err != nil {
				return nil, err
			}
			out.L = append(out.L, x)
		}
		return out, nil
	case "map":
		kt, err := d.u8()
		if err != nil {
			return nil, err
		}
		vt, err := d.u8()
		if err != nil {
			return nil, err
		}
		n, err := d.i32()
		if err != nil {
			return nil, err
		}
		if n < 0 {
			return nil, &DecodeError{"negative size"}
		}
		if n > 0 && (kt != TypeOf(r.Key) || vt != TypeOf(r.Elem)) {
			return nil, &DecodeError{fmt.Sprintf("map type bytes %d/%d, schema says %d/%d", kt, vt, TypeOf(r.Key), TypeOf(r.Elem))}
		}
		out := &idl.Val{Cat: cat, M: [][2]*idl.Val{}}
		for i := int32(0); i < n; i++ {
			k, err := d.Value(r.Key, depth+1)
			if err != nil {
				return nil, err
			}
			x, err := d.Value(r.Elem, depth+1)
			if err != nil {
				return nil, err
			}
			out.M = append(out.M, [2]*idl.Val{k, x})
		}
		return out, nil
	case "struct":
		return d.Struct(r.Ref, depth)
	}
	return nil, &DecodeError{"cannot decode " + t.String()}
}

// Struct decodes a struct under schema def.  Unknown ids and ids with another wire type are
// skipped; a field appearing twice is an error of the *encoding under test*.
func (d *Dec) Struct(def *idl.Def, depth int) (*idl.Val, error) {
	out := &idl.Val{Cat: "struct", Def: def, F: map[int32]*idl.Val{}}
	for {
		ft, err := d.u8()
		if err != nil {
			return nil, err
		}
		if ft == TStop {
			return out, nil
		}
		id, err := d.i16()
		if err != nil {
			return nil, err
		}
		f := def.FieldByID(int32(id))
		if f == nil || TypeOf(f.Type) != ft {
			if err := d.Skip(ft, depth+1); err != nil {
				return nil, err
			}
			if f == nil {
				return nil, &DecodeError{fmt.Sprintf("struct %s: field id %d is not in the schema", def.Name, id)}
			}
			return nil, &DecodeError{fmt.Sprintf("struct %s: field %d has wire type %d, schema says %d", def.Name, id, ft, TypeOf(f.Type))}
		}
		if _, dup := out.F[f.ID]; dup {
			return nil, &DecodeError{fmt.Sprintf("struct %s: field %d written twice", def.Name, id)}
		}
		x, err := d.Value(f.Type, depth+1)
		if err != nil {
			return nil, err
		}
		out.F[f.ID] = x
	}
}

// DecodeStruct decodes b as exactly one struct of schema def (strict: every field must be in
// the schema with the schema's wire type — this decodes output of the code under test).
func DecodeStruct(def *idl.Def, b []byte) (*idl.Val, error) {
	d := &Dec{B: b}
	v, err := d.Struct(def, 0)
	if err != nil {
		return nil, err
	}
	if d.Pos != len(b) {
		return nil, &DecodeError{fmt.Sprintf("%d trailing bytes", len(b)-d.Pos)}
	}
	return v, nil
}

// ---------- perturbations ----------

// SampleValue writes an arbitrary well-formed payload of wire type tt (for unknown/mistyped fields).
func SampleValue(e *Enc, tt byte, variant int) {
	switch tt {
	case TBool:
		e.u8(byte(variant & 1))
	case TByte:
		e.u8(byte(0x7f - variant))
	case TI16:
		e.i16(int16(-12345 + variant))
	case TI32:
		e.i32(int32(0x7ffffff0 + variant))
	case TI64:
		e.i64(int64(-0x7ffffffffffffff0 + int64(variant)))
	case TDouble:
		e.i64(int64(math.Float64bits(2.5 + float64(variant))))
	case TString:
		e.str("unknown-payload")
	case TStruct:
		e.u8(TI32)
		e.i16(1)
		e.i32(77)
		e.u8(TList)
		e.i16(2)
		e.u8(TString)
		e.i32(2)
		e.str("x")
		e.str("")
		e.u8(TStop)
	case TMap:
		e.u8(TString)
		e.u8(TI32)
		e.i32(2)
		e.str("k1")
		e.i32(1)
		e.str("k2")
		e.i32(2)
	case TSet:
		e.u8(TI64)
		e.i32(2)
		e.i64(5)
		e.i64(6)
	case TList:
		e.u8(TStruct)
		e.i32(2)
		e.u8(TStop)
		e.u8(TBool)
		e.i16(9)
		e.u8(1)
		e.u8(TStop)
	}
}

// FieldBytes builds one field: header + sample payload.
func FieldBytes(tt byte, id int16, variant int) []byte {
	e := &Enc{}
	e.u8(tt)
	e.i16(id)
	SampleValue(e, tt, variant)
	return e.B
}

// Insert returns b with ins inserted at offset off.
func Insert(b []byte, off int, ins []byte) []byte {
	out := make([]byte, 0, len(b)+len(ins))
	out = append(out, b[:off]...)
	out = append(out, ins...)
	out = append(out, b[off:]...)
	return out
}

// Cut returns b without [lo,hi).
func Cut(b []byte, lo, hi int) []byte {
	out := make([]byte, 0, len(b))
	out = append(out, b[:lo]...)
	out = append(out, b[hi:]...)
	return out
}

// UnusedID picks a field id not in the schema.
func UnusedID(d *idl.Def, seed int) int16 {
	used := map[int32]bool{}
	for _, f := range d.Fields {
		used[f.ID] = true
	}
	cands := []int32{32000, -32000, 0, 9999, 64, 63, -1, 1, 2, 3, 255, 256, 12345}
	for i := range cands {
		c := cands[(i+seed)%len(cands)]
		if !used[c] {
			return int16(c)
		}
	}
	for c := int32(20000); ; c++ {
		if !used[c] {
			return int16(c)
		}
	}
}

// SortedIDs lists the field ids of a struct value.
func SortedIDs(v *idl.Val) []int {
	var ids []int
	for id := range v.F {
		ids = append(ids, int(id))
	}
	sort.Ints(ids)
	return ids
}
