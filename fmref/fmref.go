// Package fmref is the reference semantics of field masks (DESIGN.md C3.5): a mask is a set of
// thrift paths over a root type, kept as a trie; queries and the value filter are defined on the
// trie directly from fieldmask/README.md and the property statements, without thriftgo code.
package fmref

import (
	"fmt"
	"sort"
	"strconv"
	"strings"

	"verif/idl"
	"verif/vlib"
)

// Node is one position of the path trie.
type Node struct {
	Complete bool             // some path ends exactly here
	Star     *Node            // the '*' child
	Kids     map[string]*Node // struct: field id; list/set: index; int map: key; string map: "s"+key
	Order    []string         // insertion order of Kids (for rendering)
}

type Mask struct {
	Root  *Node
	Black bool
	Paths []string
	Def   *idl.Def
}

// TerminalBlackStarPasses switches to the alternative reading under which a black-list path that
// ends in '*' rejects nothing (what the implementation does; recorded as a known finding).
var TerminalBlackStarPasses bool

// HasTerminalStar reports whether some path of the trie ends in '*'.
func HasTerminalStar(n *Node) bool {
	if n == nil {
		return false
	}
	if n.Star != nil && (n.Star.Complete && !n.Star.HasChild() || HasTerminalStar(n.Star)) {
		return true
	}
	for _, c := range n.Kids {
		if HasTerminalStar(c) {
			return true
		}
	}
	return false
}

var rejectAll = &Node{}

func newNode() *Node { return &Node{Kids: map[string]*Node{}} }

func (n *Node) kid(k string) *Node {
	if c, ok := n.Kids[k]; ok {
		return c
	}
	c := newNode()
	n.Kids[k] = c
	n.Order = append(n.Order, k)
	return c
}

// HasChild reports whether paths continue below this node.
func (n *Node) HasChild() bool { return n != nil && (n.Star != nil || len(n.Kids) > 0) }

// Query answers "is the child `key` of the position masked by n selected, and with which
// sub-mask" — n == nil means no mask (everything selected).
func Query(n *Node, black bool, key string) (*Node, bool) {
	if n == nil {
		return nil, true
	}
	if n == rejectAll {
		return nil, false
	}
	if n.Complete && !n.HasChild() {
		// a path ends here: white = everything below is selected; black = everything below is
		// rejected (the position itself was rejected one level up, callers do not get here)
		return nil, !black
	}
	var c *Node
	if n.Star != nil {
		c = n.Star
	} else {
		c = n.Kids[key]
	}
	if !black {
		if c == nil {
			return nil, false
		}
		if c.Complete && !c.HasChild() {
			return nil, true // selected entirely
		}
		return c, true
	}
	// black list: absent iff a complete path covers the position
	if c == nil {
		return nil, true
	}
	if c.Complete && !c.HasChild() {
		if TerminalBlackStarPasses && c == n.Star {
			return rejectAll, true // the element stays, everything inside it is rejected
		}
		return nil, false
	}
	return c, true
}

func keyOf(v *idl.Val) (string, bool) {
	switch v.Cat {
	case "i8", "i16", "i32", "i64", "enum":
		return strconv.FormatInt(v.I, 10), true
	case "string", "binary":
		return "s" + v.S, true
	}
	return "", false
}

// Filter restricts value v (of type t) to mask node n.  required=true fields survive a
// rejection (the caller decides what value they then carry); the returned `loose` set lists
// paths of required fields that were rejected (their content is not asserted).
func Filter(v *idl.Val, t *idl.Type, n *Node, black bool, path string, loose map[string]bool) *idl.Val {
	return filter(v, t, n, black, path, loose, true)
}

// RequiredPolicy decides what a rejected required field carries in the expectation of a Write
// (nil policy: its current value).
var RequiredPolicy func(f *idl.Field, x *idl.Val) *idl.Val

// FilterRead is the selection a reader stores: rejected fields are skipped whatever their requiredness.
func FilterRead(v *idl.Val, t *idl.Type, n *Node, black bool) *idl.Val {
	return filter(v, t, n, black, "$", map[string]bool{}, false)
}

func filter(v *idl.Val, t *idl.Type, n *Node, black bool, path string, loose map[string]bool, keepRequired bool) *idl.Val {
	if v == nil {
		return nil
	}
	if n == nil {
		return v
	}
	r := t.Resolve()
	switch idl.WireCat(r) {
	case "struct":
		d := r.Ref
		out := &idl.Val{Cat: "struct", Def: d, F: map[int32]*idl.Val{}}
		for _, f := range d.Fields {
			x, ok := v.F[f.ID]
			if !ok {
				continue
			}
			sub, ex := Query(n, black, strconv.Itoa(int(f.ID)))
			p := fmt.Sprintf("%s.%d", path, f.ID)
			if !ex {
				if d.EffReq(f) == idl.ReqRequired && keepRequired {
					out.F[f.ID] = x
					if RequiredPolicy != nil {
						out.F[f.ID] = RequiredPolicy(f, x)
					}
					loose[p] = true
				}
				continue
			}
			out.F[f.ID] = filter(x, f.Type, sub, black, p, loose, keepRequired)
		}
		return out
	case "list", "set":
		out := &idl.Val{Cat: v.Cat, L: []*idl.Val{}}
		for i, e := range v.L {
			sub, ex := Query(n, black, strconv.Itoa(i))
			if !ex {
				continue
			}
			out.L = append(out.L, filter(e, r.Elem, sub, black, fmt.Sprintf("%s[%d]", path, i), loose, keepRequired))
		}
		return out
	case "map":
		out := &idl.Val{Cat: "map", M: [][2]*idl.Val{}}
		for _, e := range v.M {
			k, ok := keyOf(e[0])
			if !ok {
				k = "\x00other" // neither string nor integer key: only '*' can address it
			}
			sub, ex := Query(n, black, k)
			if !ex {
				continue
			}
			out.M = append(out.M, [2]*idl.Val{e[0], filter(e[1], r.Elem, sub, black, path+"{"+k+"}", loose, keepRequired)})
		}
		return out
	}
	return v
}

// ---------- random masks over a type ----------

type GenOpts struct {
	Rng      *vlib.Rng
	MaxDepth int
	ByID     bool     // address fields by id instead of by name (per path, random)
	Value    *idl.Val // optional: a value to draw indices/keys from
	MaxIdx   int
}

func safeKey(s string) bool {
	for _, c := range []byte(s) {
		if !(c == ' ' || c == '_' || (c >= '0' && c <= '9') || (c >= 'a' && c <= 'z') || (c >= 'A' && c <= 'Z')) {
			return false
		}
	}
	return true
}

// grow adds random selections below n for type t (v: a sample value or nil).
func grow(o *GenOpts, n *Node, t *idl.Type, v *idl.Val, depth int) {
	rng := o.Rng
	r := t.Resolve()
	stop := depth >= o.MaxDepth || rng.Chance(1, 3)
	switch idl.WireCat(r) {
	case "struct":
		d := r.Ref
		if stop || len(d.Fields) == 0 || d.Kind != idl.KStruct { // paths do not descend into unions / exceptions
			n.Complete = true
			return
		}
		if rng.Chance(1, 10) {
			n.Star = newNode()
			n.Star.Complete = true // '*' at struct level only as the last token
			return
		}
		k := rng.Range(1, min(3, len(d.Fields)))
		picked := 0
		for _, i := range rng.Perm(len(d.Fields))[:k] {
			f := d.Fields[i]
			if f.ID < 0 && !pathName(f.Name) {
				continue
			}
			var cv *idl.Val
			if v != nil {
				cv = v.F[f.ID]
			}
			picked++
			grow(o, n.kid(strconv.Itoa(int(f.ID))), f.Type, cv, depth+1)
		}
		if picked == 0 {
			n.Complete = true
		}
	case "list", "set":
		if stop || unsupportedElem(r.Elem) {
			n.Complete = true
			return
		}
		if rng.Chance(1, 4) {
			n.Star = newNode()
			grow(o, n.Star, r.Elem, firstElem(v), depth+1)
			return
		}
		size := 0
		if v != nil {
			size = len(v.L)
		}
		k := rng.Range(1, 3)
		for j := 0; j < k; j++ {
			idx := rng.Intn(size + 2) // also one or two beyond the end
			var cv *idl.Val
			if v != nil && idx < len(v.L) {
				cv = v.L[idx]
			}
			c := n.kid(strconv.Itoa(idx))
			if !c.Complete && !c.HasChild() {
				grow(o, c, r.Elem, cv, depth+1)
			}
		}
	case "map":
		kc := idl.WireCat(r.Key)
		intKey := kc == "i8" || kc == "i16" || kc == "i32" || kc == "i64" || kc == "enum"
		strKey := kc == "string" || kc == "binary"
		if stop || unsupportedElem(r.Elem) {
			n.Complete = true
			return
		}
		if !intKey && !strKey || rng.Chance(1, 4) {
			n.Star = newNode()
			grow(o, n.Star, r.Elem, firstMapVal(v), depth+1)
			return
		}
		var present []*idl.Val
		if v != nil {
			for _, e := range v.M {
				// the path syntax has no negative integers and no escapes worth relying on
				if ks, ok := keyOf(e[0]); ok && (intKey && !strings.HasPrefix(ks, "-") || !intKey && safeKey(ks[1:])) {
					present = append(present, e[0])
				}
			}
		}
		k := rng.Range(1, 3)
		for j := 0; j < k; j++ {
			var ks string
			var cv *idl.Val
			if len(present) > 0 && rng.Chance(2, 3) {
				kv := present[rng.Intn(len(present))]
				ks, _ = keyOf(kv)
				for _, e := range v.M {
					if e[0] == kv {
						cv = e[1]
					}
				}
			} else if intKey {
				ks = strconv.Itoa(rng.Range(0, 40))
			} else {
				ks = "s" + []string{"absent", "k1", "no such key", "", "q\"uote", "back\\slash", "tab\there", "é"}[rng.Intn(8)]
			}
			c := n.kid(ks)
			if !c.Complete && !c.HasChild() {
				grow(o, c, r.Elem, cv, depth+1)
			}
		}
	default:
		n.Complete = true
	}
}

// unsupportedElem: the mask library cannot address the inside of a container of unions/exceptions.
func unsupportedElem(t *idl.Type) bool {
	r := t.Resolve()
	return idl.WireCat(r) == "struct" && r.Ref.Kind != idl.KStruct
}

func firstElem(v *idl.Val) *idl.Val {
	if v != nil && len(v.L) > 0 {
		return v.L[0]
	}
	return nil
}

func firstMapVal(v *idl.Val) *idl.Val {
	if v != nil && len(v.M) > 0 {
		return v.M[0][1]
	}
	return nil
}

func min(a, b int) int {
	if a < b {
		return a
	}
	return b
}

// Gen draws a mask over struct d: a prefix-free path set in which no level mixes '*' with
// specific selectors.
func Gen(o *GenOpts, d *idl.Def, black bool) *Mask {
	m := &Mask{Root: newNode(), Black: black, Def: d}
	if o.MaxDepth == 0 {
		o.MaxDepth = 4
	}
	if len(d.Fields) > 0 {
		k := o.Rng.Range(1, min(4, len(d.Fields)))
		for _, i := range o.Rng.Perm(len(d.Fields))[:k] {
			f := d.Fields[i]
			if f.ID < 0 && !pathName(f.Name) {
				continue
			}
			var cv *idl.Val
			if o.Value != nil {
				cv = o.Value.F[f.ID]
			}
			grow(o, m.Root.kid(strconv.Itoa(int(f.ID))), f.Type, cv, 1)
		}
	} else {
		m.Root.Complete = true
	}
	m.Paths = Render(o.Rng, m.Root, &idl.Type{Name: d.Name, Ref: d})
	return m
}

// Render writes the trie as path strings (one per complete node; sibling leaves of a list or map
// are sometimes grouped as [1,3] / {"a","b"}; fields are addressed by name or by id).
func Render(rng *vlib.Rng, root *Node, t *idl.Type) []string {
	// keyed renders the children of a list / set / map node: leaves may be grouped ([1,3]), and tails shared by
	// several children may be written once behind a key set ([1,2].a next to [1].b)
	var walk func(n *Node, t *idl.Type, prefix string) []string
	keyed := func(n *Node, elem *idl.Type, prefix, open, close string, lit func(string) string) []string {
		var out, leaves []string
		tails := map[string][]string{} // tail -> keys (in order)
		var tailOrder []string
		for _, k := range n.Order {
			c := n.Kids[k]
			if c.Complete && !c.HasChild() && rng != nil && rng.Chance(1, 2) {
				leaves = append(leaves, lit(k))
				continue
			}
			for _, tl := range walk(c, elem, "") {
				if _, ok := tails[tl]; !ok {
					tailOrder = append(tailOrder, tl)
				}
				tails[tl] = append(tails[tl], lit(k))
			}
		}
		for _, tl := range tailOrder {
			ks := tails[tl]
			if len(ks) > 1 && rng != nil && rng.Chance(2, 3) {
				out = append(out, prefix+open+strings.Join(ks, ",")+close+tl)
				continue
			}
			for _, k := range ks {
				out = append(out, prefix+open+k+close+tl)
			}
		}
		if len(leaves) > 0 {
			out = append(out, prefix+open+strings.Join(leaves, ",")+close)
		}
		return out
	}
	walk = func(n *Node, t *idl.Type, prefix string) []string {
		if n.Complete && !n.HasChild() {
			return []string{prefix}
		}
		var out []string
		r := t.Resolve()
		switch idl.WireCat(r) {
		case "struct":
			if n.Star != nil {
				return walk(n.Star, r, prefix+".*")
			}
			for _, k := range n.Order {
				id, _ := strconv.Atoi(k)
				f := r.Ref.FieldByID(int32(id))
				seg := "." + f.Name
				if (rng != nil && rng.Chance(1, 3) || !pathName(f.Name)) && id >= 0 { // the path syntax has no negative ids
					seg = "." + k
				}
				out = append(out, walk(n.Kids[k], f.Type, prefix+seg)...)
			}
		case "list", "set":
			if n.Star != nil {
				return walk(n.Star, r.Elem, prefix+"[*]")
			}
			out = keyed(n, r.Elem, prefix, "[", "]", func(k string) string { return k })
		case "map":
			if n.Star != nil {
				return walk(n.Star, r.Elem, prefix+"{*}")
			}
			out = keyed(n, r.Elem, prefix, "{", "}", func(k string) string {
				if strings.HasPrefix(k, "s") {
					return strconv.Quote(k[1:]) // the path syntax takes Go string literals
				}
				return k
			})
		default:
			out = append(out, prefix)
		}
		return out
	}
	out := walk(root, t, "$")
	sort.Strings(out)
	return out
}

// pathName: README — a field name in a path may only contain letters, digits and '_'.
func pathName(s string) bool {
	if s == "" {
		return false
	}
	for _, c := range []byte(s) {
		if !(c == '_' || (c >= '0' && c <= '9') || (c >= 'a' && c <= 'z') || (c >= 'A' && c <= 'Z')) {
			return false
		}
	}
	return true
}
