package idl

import "verif/vlib"

// KitchenSinks is the seed-independent corpus: a few large programs drawn from FIXED seeds with
// every feature switched on, so that every definition kind, type shape, requiredness and id
// shape is present regardless of VERIF_SEED (coverage floor, DESIGN.md E1).
func KitchenSinks() []*Program {
	var out []*Program
	for i, seed := range []int64{11, 23, 37, 41, 53, 67} {
		o := DefaultOpts()
		o.Files = 3
		o.Structs = 7
		o.FieldsMax = 14
		o.UnionDefault = false // a union member with a default is set in every fresh object: such unions cannot be re-written after Read
		o.HexIDs = true
		o.ExpDoubles = true
		o.NameStress = i % 3
		o.Annotations = 1
		o.SameNS = i >= 3
		o.Sparse = i >= 4
		out = append(out, Generate(vlib.NewRng(seed, "kitchen-sink"), o))
	}
	return out
}
