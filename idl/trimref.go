package idl

// Reference model of IDL trimming (C16): which definitions must survive, which must go, computed on the
// model alone (reachability closure from the kept service methods plus the documented always-kept
// categories: constants, typedefs, enums, preserved struct-likes).

import (
	"regexp"
	"strings"
)

type TrimArgs struct {
	Methods           []string // -m patterns as given
	NoPreserve        bool     // -p false: ignore every preservation mechanism
	NoPreserveComment bool     // disable_preserve_comment
	PreserveNames     []string // preserved_structs
	MatchGoName       bool     // match_go_name: -m patterns and preserved_structs are compared with Go-converted names
	PreserveFiles     []string // preserved_files: model paths of files whose structs are all kept
}

// GoNameOf is the documented conversion of match_go_name (snake_case -> PascalCase): the words between
// underscores get an upper-case first letter and are joined.
func GoNameOf(s string) string {
	var b strings.Builder
	for _, w := range strings.Split(s, "_") {
		if w != "" {
			b.WriteString(strings.ToUpper(w[:1]) + w[1:])
		}
	}
	return b.String()
}

// Tri is a three-valued expectation.
type Tri int

const (
	MustGo   Tri = -1
	Either   Tri = 0
	MustStay Tri = 1
)

type TrimExpect struct {
	Files     []*File         // files reachable from the main file through includes (original program)
	Def       map[*Def]Tri    // every definition of Files
	Func      map[*Func]Tri   // every function of every service of Files
	Reason    map[*Def]string // why a MustStay definition stays: "<root kind>/<last edge>/<local|foreign>"
	Always    map[*File]bool  // the file or a file it includes (transitively) holds always-kept definitions
	ExtNeeded map[*Def]bool   // the service must still extend its base: a kept method is inherited through it
}

var literalPattern = regexp.MustCompile(`^[A-Za-z0-9_.]+$`)

// matchMethod decides whether pattern p selects the function name n ("Service.function").
func matchMethod(p, n string) Tri {
	re, err := regexp.Compile(p)
	if err != nil {
		return Either
	}
	if !re.MatchString(n) {
		return MustGo
	}
	if anch, err := regexp.Compile("^(?:" + p + ")$"); err == nil && anch.MatchString(n) {
		return MustStay
	}
	if literalPattern.MatchString(p) && strings.HasPrefix(n, p) {
		return MustGo // "S.get" does not select "S.getAll"
	}
	return Either // the pattern matches inside the name only: not pinned down by the documentation
}

func maxTri(a, b Tri) Tri {
	if a > b {
		return a
	}
	return b
}

// ReachableFiles lists the files reachable from the main file.
func (p *Program) ReachableFiles() []*File {
	var out []*File
	seen := map[*File]bool{}
	var walk func(f *File)
	walk = func(f *File) {
		if seen[f] {
			return
		}
		seen[f] = true
		out = append(out, f)
		for _, inc := range f.Includes {
			walk(inc.File)
		}
	}
	walk(p.Main())
	return out
}

func ExpectTrim(p *Program, a TrimArgs) *TrimExpect {
	e := &TrimExpect{ExtNeeded: map[*Def]bool{}, Def: map[*Def]Tri{}, Func: map[*Func]Tri{}, Reason: map[*Def]string{}, Always: map[*File]bool{}}
	e.Files = p.ReachableFiles()
	main := p.Main()
	mainSvcs := main.DefsOf(KService)

	// ----- functions and services -----
	funcTri := map[*Func]Tri{}
	svcTri := map[*Def]Tri{}
	for _, f := range e.Files {
		for _, s := range f.DefsOf(KService) {
			svcTri[s] = MustGo
			for _, fn := range s.Funcs {
				funcTri[fn] = MustGo
			}
		}
	}
	// services of included files that no main service extends are dropped by the implementation; the
	// property does not speak about them: their own survival is not asserted, and they root nothing.
	unasserted := map[*Def]bool{}
	for _, f := range e.Files {
		if f == main {
			continue
		}
		for _, s := range f.DefsOf(KService) {
			unasserted[s] = true
		}
	}
	var pats []string
	for _, m := range a.Methods {
		if !strings.Contains(m, ".") && len(mainSvcs) > 0 {
			m = mainSvcs[len(mainSvcs)-1].Name + "." + m
		}
		pats = append(pats, m)
	}
	for _, s := range mainSvcs {
		var chain []*Def
		for x := s; x != nil; x = x.Extends {
			chain = append(chain, x)
		}
		if len(a.Methods) == 0 {
			for _, x := range chain {
				svcTri[x] = MustStay
				delete(unasserted, x)
				for _, fn := range x.Funcs {
					funcTri[fn] = MustStay
				}
				if x.Extends != nil {
					e.ExtNeeded[x] = true
				}
			}
			continue
		}
		top, topMaybe := -1, -1
		for k, x := range chain {
			for _, fn := range x.Funcs {
				st := MustGo
				for j := 0; j <= k; j++ {
					for _, pt := range pats {
						fname := fn.Name
						if a.MatchGoName {
							fname = GoNameOf(fname)
						}
						st = maxTri(st, matchMethod(pt, chain[j].Name+"."+fname))
					}
				}
				funcTri[fn] = maxTri(funcTri[fn], st)
				if st == MustStay {
					top = k
				}
				if st >= Either {
					topMaybe = k
				}
			}
		}
		for k, x := range chain {
			if k < top {
				e.ExtNeeded[x] = true
			}
			if k <= top {
				svcTri[x] = MustStay
				delete(unasserted, x)
			} else if k <= topMaybe {
				svcTri[x] = maxTri(svcTri[x], Either)
			}
		}
	}
	for s := range unasserted {
		if svcTri[s] == MustGo {
			svcTri[s] = Either
			for _, fn := range s.Funcs {
				funcTri[fn] = Either
			}
		}
	}
	e.Func = funcTri

	// ----- reachability -----
	lower := map[*Def]bool{} // reached from what must stay
	upper := map[*Def]bool{} // reached from what may stay
	var reach func(set map[*Def]bool, t *Type, root, edge string, from *File, record bool)
	mark := func(set map[*Def]bool, d *Def, root, edge string, from *File, record bool) bool {
		if set[d] {
			return false
		}
		set[d] = true
		if record {
			if _, ok := e.Reason[d]; !ok {
				loc := "local"
				if d.File != from {
					loc = "foreign"
				}
				e.Reason[d] = root + "/" + edge + "/" + loc
			}
		}
		return true
	}
	reach = func(set map[*Def]bool, t *Type, root, edge string, from *File, record bool) {
		if t == nil {
			return
		}
		if t.Ref == nil {
			if t.Key != nil {
				reach(set, t.Key, root, "container-element", from, record)
			}
			if t.Elem != nil {
				reach(set, t.Elem, root, "container-element", from, record)
			}
			return
		}
		d := t.Ref
		if !mark(set, d, root, edge, from, record) {
			return
		}
		switch {
		case d.Kind == KTypedef:
			reach(set, d.Type, root, "typedef-target", d.File, record)
		case d.Kind.IsStructLike():
			for _, f := range d.Fields {
				reach(set, f.Type, root, "field-type", d.File, record)
			}
		}
	}
	// preservedTri: MustStay for a struct-like the arguments preserve; Either for unions and exceptions of a
	// preserved file (the documentation speaks of the file's "structs").
	// how: "preserved" (comment), "preserved-name", "preserved-go-name" (the listed name equals the struct's name only
	// after Go conversion), "preserved-file".
	preservedHow := func(d *Def) (Tri, string) {
		if a.NoPreserve || !d.Kind.IsStructLike() {
			return MustGo, ""
		}
		if d.Preserve && !a.NoPreserveComment {
			return MustStay, "preserved"
		}
		name := d.Name
		if a.MatchGoName {
			name = GoNameOf(name)
		}
		for _, n := range a.PreserveNames {
			if n == name {
				if n != d.Name {
					return MustStay, "preserved-go-name"
				}
				return MustStay, "preserved-name"
			}
		}
		for _, pf := range a.PreserveFiles {
			if pf == d.File.Path {
				if d.Kind == KStruct {
					return MustStay, "preserved-file"
				}
				return Either, "preserved-file"
			}
		}
		return MustGo, ""
	}
	preservedTri := func(d *Def) Tri { t, _ := preservedHow(d); return t }
	preserved := func(d *Def) bool { return preservedTri(d) == MustStay }
	both := func(do func(set map[*Def]bool, record bool)) {
		do(lower, true)
		do(upper, false)
	}
	for _, f := range e.Files {
		for _, d := range f.Defs {
			d := d
			switch {
			case d.Kind == KTypedef:
				both(func(set map[*Def]bool, rec bool) {
					mark(set, d, "always-kept", "typedef", d.File, rec)
					reach(set, d.Type, "typedef", "typedef-target", d.File, rec)
				})
			case d.Kind == KConst:
				both(func(set map[*Def]bool, rec bool) {
					mark(set, d, "always-kept", "constant", d.File, rec)
					reach(set, d.Type, "constant", "constant-type", d.File, rec)
				})
			case d.Kind == KEnum:
				both(func(set map[*Def]bool, rec bool) { mark(set, d, "always-kept", "enum", d.File, rec) })
			case preserved(d):
				_, how := preservedHow(d)
				both(func(set map[*Def]bool, rec bool) {
					if mark(set, d, how, "itself", d.File, rec) {
						for _, fl := range d.Fields {
							reach(set, fl.Type, how, "field-type", d.File, rec)
						}
					}
				})
			case preservedTri(d) == Either:
				if mark(upper, d, "preserved", "itself", d.File, false) {
					for _, fl := range d.Fields {
						reach(upper, fl.Type, "preserved", "field-type", d.File, false)
					}
				}
			case d.Kind == KService:
				for _, fn := range d.Funcs {
					st := funcTri[fn]
					if st == MustGo || unasserted[d] {
						continue
					}
					roots := func(set map[*Def]bool, rec bool) {
						for _, ar := range fn.Args {
							reach(set, ar.Type, "method", "argument", d.File, rec)
						}
						if !fn.Void {
							reach(set, fn.Ret, "method", "result", d.File, rec)
						}
						for _, th := range fn.Throws {
							reach(set, th.Type, "method", "throws", d.File, rec)
						}
					}
					if st == MustStay {
						roots(lower, true)
					}
					roots(upper, false)
				}
			}
		}
	}
	for _, f := range e.Files {
		for _, d := range f.Defs {
			switch {
			case d.Kind == KService:
				e.Def[d] = svcTri[d]
				if svcTri[d] == MustStay {
					if d.File == main {
						e.Reason[d] = "service/main-file/local"
					} else {
						e.Reason[d] = "service/base-service/foreign"
					}
				}
			case lower[d]:
				e.Def[d] = MustStay
			case upper[d]:
				e.Def[d] = Either
			default:
				e.Def[d] = MustGo
			}
		}
	}
	// ----- files holding always-kept definitions -----
	var always func(f *File, seen map[*File]bool) bool
	always = func(f *File, seen map[*File]bool) bool {
		if seen[f] {
			return false
		}
		seen[f] = true
		for _, d := range f.Defs {
			if d.Kind == KTypedef || d.Kind == KConst || d.Kind == KEnum || preservedTri(d) != MustGo {
				return true
			}
		}
		for _, inc := range f.Includes {
			if always(inc.File, seen) {
				return true
			}
		}
		return false
	}
	for _, f := range e.Files {
		e.Always[f] = always(f, map[*File]bool{})
	}
	return e
}

// RefFiles lists the files that definition d (restricted to the functions keep allows) refers to.
func RefFiles(d *Def, keepFunc func(*Func) bool, extends bool) map[*File]bool {
	out := map[*File]bool{}
	var ty func(t *Type)
	ty = func(t *Type) {
		if t == nil {
			return
		}
		if t.Ref != nil {
			out[t.Ref.File] = true
			return
		}
		ty(t.Key)
		ty(t.Elem)
	}
	var val func(v *Value)
	val = func(v *Value) {
		if v == nil {
			return
		}
		if v.Kind == VIdent { // only identifiers are textual references
			if v.ToConst != nil {
				out[v.ToConst.File] = true
			}
			if v.ToEnum != nil && v.ViaType == nil {
				out[v.ToEnum.File] = true
			}
			if v.ViaType != nil {
				out[v.ViaType.File] = true
			}
		}
		for _, x := range v.List {
			val(x)
		}
		for _, kv := range v.Map {
			val(kv[0])
			val(kv[1])
		}
	}
	ty(d.Type)
	val(d.Value)
	for _, f := range d.Fields {
		ty(f.Type)
		val(f.Default)
	}
	if d.Kind == KService {
		if extends && d.Extends != nil {
			out[d.Extends.File] = true
		}
		for _, fn := range d.Funcs {
			if !keepFunc(fn) {
				continue
			}
			ty(fn.Ret)
			for _, f := range fn.Args {
				ty(f.Type)
				val(f.Default)
			}
			for _, f := range fn.Throws {
				ty(f.Type)
				val(f.Default)
			}
		}
	}
	delete(out, d.File)
	return out
}

// Prune returns the program the trimmer must produce (definitions that must stay; no method filter).
func Prune(p *Program, e *TrimExpect) *Program {
	out := &Program{}
	cp := map[*File]*File{}
	for _, f := range e.Files {
		nf := *f
		nf.Defs = nil
		for _, d := range f.Defs {
			if e.Def[d] == MustStay {
				nf.Defs = append(nf.Defs, d)
			}
		}
		cp[f] = &nf
		out.Files = append(out.Files, &nf)
	}
	// includes point at the copies (definitions keep pointing at the original files: same paths and namespaces)
	for _, nf := range out.Files {
		incs := make([]*Include, 0, len(nf.Includes))
		for _, inc := range nf.Includes {
			c := *inc
			if x := cp[inc.File]; x != nil {
				c.File = x
			}
			incs = append(incs, &c)
		}
		nf.Includes = incs
	}
	return out
}
