// Package idl is the IDL model: the ground truth from which text, the expected AST, the
// expected symbol bindings, wire schemas and reference evaluations are derived WITHOUT calling
// any thriftgo code (DESIGN.md E1, Appendix C).
package idl

import (
	"fmt"
	"path"
	"strings"
)

type DefKind int

const (
	KTypedef DefKind = iota
	KConst
	KEnum
	KStruct
	KUnion
	KException
	KService
)

func (k DefKind) String() string {
	return [...]string{"typedef", "const", "enum", "struct", "union", "exception", "service"}[k]
}

func (k DefKind) IsStructLike() bool { return k == KStruct || k == KUnion || k == KException }

type AnnPair struct{ K, V string }

// Type is a type expression as written.
type Type struct {
	Name    string // base type spelling, "list", "set", "map", or the bare name of a definition
	Key     *Type
	Elem    *Type
	Ref     *Def // referenced definition (typedef, enum, struct-like)
	Qual    bool // written with the include prefix of Ref.File
	Ann     []AnnPair
	CppType string
}

type Req int

const (
	ReqDefault Req = iota
	ReqRequired
	ReqOptional
)

func (r Req) String() string { return [...]string{"default", "required", "optional"}[r] }

type Field struct {
	ID         int32
	ExplicitID bool
	IDSpell    int // 0 dec, 1 hex, 2 octal, 3 +dec  (only for non-negative ids)
	Req        Req
	Type       *Type
	Name       string
	Default    *Value
	Ann        []AnnPair
}

type EnumVal struct {
	Name     string
	Explicit bool
	Value    int64
	Spell    int
	Ann      []AnnPair
}

type Func struct {
	Name   string
	Oneway bool
	Void   bool
	Ret    *Type
	Args   []*Field
	Throws []*Field
	Ann    []AnnPair
}

type Def struct {
	Kind     DefKind
	Name     string
	File     *File
	Ann      []AnnPair
	Type     *Type      // typedef target, const type
	Value    *Value     // const
	EnumVals []*EnumVal // enum
	Fields   []*Field   // struct-like
	Extends  *Def       // service
	Funcs    []*Func    // service
	Preserve bool       // struct-like carries an @preserve comment (trimmer)
}

type Namespace struct {
	Lang string
	Name string
	Ann  []AnnPair
}

type Include struct {
	File *File
	Path string // literal as written
}

type File struct {
	Path        string // path relative to the program root, e.g. "main.thrift", "sub/base.thrift"
	Includes    []*Include
	CppIncludes []string
	Namespaces  []*Namespace
	Defs        []*Def // in source order
}

// Program is a set of files; Files[0] is the main file.
type Program struct {
	Files []*File
}

func (f *File) Prefix() string {
	return strings.TrimSuffix(path.Base(f.Path), ".thrift")
}

func (f *File) GoNamespace() string {
	for _, n := range f.Namespaces {
		if n.Lang == "go" {
			return n.Name
		}
	}
	for _, n := range f.Namespaces {
		if n.Lang == "*" {
			return n.Name
		}
	}
	return f.Prefix()
}

func (f *File) DefsOf(kinds ...DefKind) []*Def {
	var out []*Def
	for _, d := range f.Defs {
		for _, k := range kinds {
			if d.Kind == k {
				out = append(out, d)
			}
		}
	}
	return out
}

func (f *File) Find(name string) *Def {
	for _, d := range f.Defs {
		if d.Name == name {
			return d
		}
	}
	return nil
}

// IncludeIndex returns the position in f.Includes of the first include whose file is g.
func (f *File) IncludeIndex(g *File) int {
	for i, inc := range f.Includes {
		if inc.File == g {
			return i
		}
	}
	return -1
}

func (p *Program) Main() *File { return p.Files[0] }

// AllStructLikes lists every struct/union/exception of the program.
func (p *Program) AllStructLikes() []*Def {
	var out []*Def
	for _, f := range p.Files {
		out = append(out, f.DefsOf(KStruct, KUnion, KException)...)
	}
	return out
}

// ---------- types ----------

var BaseTypes = []string{"bool", "byte", "i8", "i16", "i32", "i64", "double", "string", "binary"}

func IsBase(name string) bool {
	for _, b := range BaseTypes {
		if b == name {
			return true
		}
	}
	return false
}

func (t *Type) IsContainer() bool {
	return t.Ref == nil && (t.Name == "list" || t.Name == "set" || t.Name == "map")
}

// Resolve follows typedefs to the final type expression.
func (t *Type) Resolve() *Type {
	for t.Ref != nil && t.Ref.Kind == KTypedef {
		t = t.Ref.Type
	}
	return t
}

// Cat is the final category name: base type name, list/set/map, enum, struct, union, exception.
func (t *Type) Cat() string {
	r := t.Resolve()
	if r.Ref != nil {
		return r.Ref.Kind.String()
	}
	if r.Name == "byte" {
		return "i8"
	}
	return r.Name
}

// Written returns the name as it appears in the IDL, seen from file `from`.
func (t *Type) Written() string {
	if t.Ref != nil && t.Qual {
		return t.Ref.File.Prefix() + "." + t.Ref.Name
	}
	if t.Ref != nil {
		return t.Ref.Name
	}
	return t.Name
}

func (t *Type) String() string {
	switch {
	case t.Ref != nil:
		return t.Written()
	case t.Name == "map":
		return "map<" + t.Key.String() + "," + t.Elem.String() + ">"
	case t.Name == "list" || t.Name == "set":
		return t.Name + "<" + t.Elem.String() + ">"
	}
	return t.Name
}

// Shape is a coverage signature of a resolved type (typedef-insensitive, depth-limited).
func (t *Type) Shape(depth int) string {
	r := t.Resolve()
	c := r.Cat()
	if depth <= 0 {
		return c
	}
	switch c {
	case "map":
		return "map<" + r.Key.Shape(depth-1) + "," + r.Elem.Shape(depth-1) + ">"
	case "list", "set":
		return c + "<" + r.Elem.Shape(depth-1) + ">"
	}
	return c
}

// ---------- constant values as written ----------

type ValueKind int

const (
	VInt ValueKind = iota
	VDouble
	VString
	VIdent
	VList
	VMap
)

// Value is a constant initializer as written in the IDL.
type Value struct {
	Kind   ValueKind
	Int    int64
	Spell  int     // VInt: 0 dec, 1 hex, 2 octal, 3 +dec
	Dbl    float64 // VDouble: value of DblTxt
	DblTxt string
	Str    string // VString: the literal's characters as the AST must hold them
	Quote  byte   // preferred quote when the layout does not force one (0 = layout decides)
	Ident  string // VIdent: as written
	// binding of an identifier (what it denotes)
	ToConst   *Def     // a constant
	ToEnum    *Def     // an enum ...
	ToEnumVal *EnumVal // ... and its member
	ViaType   *Def     // enum reached through this typedef (selector is the typedef's name)
	BoolLit   int      // 1: `true`, 2: `false`
	List      []*Value
	Map       [][2]*Value
}

func (v *Value) String() string {
	switch v.Kind {
	case VInt:
		return fmt.Sprint(v.Int)
	case VDouble:
		return v.DblTxt
	case VString:
		return fmt.Sprintf("%q", v.Str)
	case VIdent:
		return v.Ident
	case VList:
		var s []string
		for _, e := range v.List {
			s = append(s, e.String())
		}
		return "[" + strings.Join(s, ",") + "]"
	case VMap:
		var s []string
		for _, e := range v.Map {
			s = append(s, e[0].String()+":"+e[1].String())
		}
		return "{" + strings.Join(s, ",") + "}"
	}
	return "?"
}

// SharesPackage reports whether two files of the program have the same go namespace.
func SharesPackage(p *Program) bool {
	seen := map[string]bool{}
	for _, f := range p.Files {
		ns := f.GoNamespace()
		if seen[ns] {
			return true
		}
		seen[ns] = true
	}
	return false
}
