package idl

// Single rule-breaking edits of a valid program (C04).  Every edit changes the model in place (callers
// regenerate the program for each edit) or the rendered text, and reports where it was applied.

import (
	"fmt"
	"path"
	"strings"

	"verif/vlib"
)

type Broken struct {
	Kind  string // catalogue entry
	Where string // "main-file", "included-file", "deep-include"
	Site  string // what was edited
	Text  bool   // the edit is applied to the rendered text by ApplyText
	file  *File
	extra string
}

// BreakKinds is the catalogue.
var BreakKinds = []string{
	"syntax/unclosed-brace", "syntax/stray-token", "syntax/unterminated-string", "syntax/missing-type",
	"include/missing-file", "include/cycle-1", "include/cycle-2", "include/cycle-3", "include/cycle-4",
	"duplicate/global-name/same-kind", "duplicate/global-name/other-kind",
	"duplicate/field-name/struct", "duplicate/field-name/union", "duplicate/field-name/exception", "duplicate/field-name/args", "duplicate/field-name/throws",
	"duplicate/field-id/struct", "duplicate/field-id/union", "duplicate/field-id/exception", "duplicate/field-id/args", "duplicate/field-id/throws",
	"duplicate/function-name", "duplicate/enum-value-name", "duplicate/enum-number",
	"enum/value-above-int32", "enum/value-below-int32",
	"type/undefined-local", "type/undefined-in-include", "type/unknown-include-prefix", "type/constant-used-as-type", "type/service-used-as-type", "type/included-service-used-as-type", "type/included-constant-used-as-type",
	"type/undefined-in-container", "type/undefined-typedef-target", "type/undefined-function-result", "type/undefined-argument", "type/undefined-throws", "type/undefined-const-type",
	"typedef/cycle", "typedef/self", "typedef/cycle-with-selector-constant",
	"value/undefined-identifier", "value/undefined-identifier-in-include", "value/undefined-enum-member", "value/ambiguous-identifier", "value/ambiguous-identifier-two-includes",
	"value/string-for-integer", "value/string-for-double", "value/integer-for-string", "value/list-for-integer", "value/unknown-field-in-struct-literal", "value/non-string-key-in-struct-literal",
	"value/string-for-bool",
	"function/oneway-returns", "function/oneway-throws",
	"service/unknown-base", "service/unknown-base-in-include",
	"union/second-default",
}

func (p *Program) depthOf() map[*File]int {
	d := map[*File]int{p.Main(): 0}
	q := []*File{p.Main()}
	for len(q) > 0 {
		f := q[0]
		q = q[1:]
		for _, inc := range f.Includes {
			if _, ok := d[inc.File]; !ok {
				d[inc.File] = d[f] + 1
				q = append(q, inc.File)
			}
		}
	}
	return d
}

func whereOf(depth int) string {
	switch depth {
	case 0:
		return "main-file"
	case 1:
		return "included-file"
	}
	return "deep-include"
}

type fieldList struct {
	kind   string // struct, union, exception, args, throws
	owner  string
	fields *[]*Field
	file   *File
}

func fieldLists(f *File) []fieldList {
	var out []fieldList
	for _, d := range f.Defs {
		d := d
		switch {
		case d.Kind.IsStructLike():
			out = append(out, fieldList{d.Kind.String(), d.Name, &d.Fields, f})
		case d.Kind == KService:
			for _, fn := range d.Funcs {
				fn := fn
				out = append(out, fieldList{"args", d.Name + "." + fn.Name, &fn.Args, f})
				out = append(out, fieldList{"throws", d.Name + "." + fn.Name, &fn.Throws, f})
			}
		}
	}
	return out
}

// Break applies catalogue entry kind to p at a position drawn from rng.  ok is false when the program
// offers no position for it.
func Break(rng *vlib.Rng, p *Program, kind string) (b *Broken, ok bool) {
	depth := p.depthOf()
	files := p.ReachableFiles()
	// candidate files in random order, so that every depth gets its turn
	order := rng.Perm(len(files))
	b = &Broken{Kind: kind}
	done := func(f *File, site string) (*Broken, bool) {
		b.file = f
		b.Where = whereOf(depth[f])
		b.Site = site
		return b, true
	}
	undefined := func(name string) *Type { return &Type{Name: name} }
	parts := strings.Split(kind, "/")
	for _, fi := range order {
		f := files[fi]
		switch parts[0] {
		case "syntax":
			b.Text = true
			return done(f, f.Path)
		case "include":
			b.Text = true
			if parts[1] == "missing-file" {
				return done(f, f.Path)
			}
			var n int
			fmt.Sscanf(parts[1], "cycle-%d", &n)
			// a chain of n-1 include steps ending in f; f then includes the head of the chain
			chain := []*File{f}
			cur := f
			for len(chain) < n {
				var parents []*File
				for _, g := range files {
					if g.IncludeIndex(cur) >= 0 && g != cur {
						dup := false
						for _, c := range chain {
							if c == g {
								dup = true
							}
						}
						if !dup {
							parents = append(parents, g)
						}
					}
				}
				if len(parents) == 0 {
					break
				}
				cur = parents[rng.Intn(len(parents))]
				chain = append(chain, cur)
			}
			if len(chain) != n {
				continue
			}
			b.extra = relPath(f.Path, cur.Path)
			return done(f, fmt.Sprintf("%s includes %s", f.Path, cur.Path))
		case "duplicate":
			switch parts[1] {
			case "global-name":
				var a, c *Def
				perm := rng.Perm(len(f.Defs))
				for _, i := range perm {
					for _, j := range perm {
						x, y := f.Defs[i], f.Defs[j]
						if x == y || x.Kind == KEnum || y.Kind == KEnum {
							continue // enums live in the same scope but are covered by "multiple definition" of the resolver: keep to what the checker documents
						}
						if (parts[2] == "same-kind") == (x.Kind == y.Kind) {
							a, c = x, y
						}
					}
				}
				if a == nil {
					continue
				}
				c.Name = a.Name
				return done(f, fmt.Sprintf("%s and %s named %s", a.Kind, c.Kind, a.Name))
			case "field-name", "field-id":
				var cands []fieldList
				for _, fl := range fieldLists(f) {
					if fl.kind == parts[2] && len(*fl.fields) >= 2 {
						cands = append(cands, fl)
					}
				}
				if len(cands) == 0 {
					continue
				}
				fl := cands[rng.Intn(len(cands))]
				fs := *fl.fields
				i := rng.Intn(len(fs) - 1)
				j := i + 1 + rng.Intn(len(fs)-i-1)
				if parts[1] == "field-name" {
					fs[j].Name = fs[i].Name
				} else {
					// make every id of the list explicit first, so that only this pair collides
					ids := effectiveIDs(fs)
					for k, fld := range fs {
						fld.ID, fld.ExplicitID, fld.IDSpell = ids[k], true, 0
					}
					fs[j].ID = fs[i].ID
				}
				return done(f, fmt.Sprintf("%s %s: %s", fl.kind, fl.owner, fs[j].Name))
			case "function-name":
				var cands []*Def
				for _, d := range f.DefsOf(KService) {
					if len(d.Funcs) >= 2 {
						cands = append(cands, d)
					}
				}
				if len(cands) == 0 {
					continue
				}
				d := cands[rng.Intn(len(cands))]
				i := rng.Intn(len(d.Funcs) - 1)
				d.Funcs[i+1].Name = d.Funcs[i].Name
				return done(f, d.Name+"."+d.Funcs[i].Name)
			case "enum-value-name", "enum-number":
				var cands []*Def
				for _, d := range f.DefsOf(KEnum) {
					if len(d.EnumVals) >= 2 {
						cands = append(cands, d)
					}
				}
				if len(cands) == 0 {
					continue
				}
				d := cands[rng.Intn(len(cands))]
				i := rng.Intn(len(d.EnumVals) - 1)
				if parts[1] == "enum-value-name" {
					d.EnumVals[i+1].Name = d.EnumVals[i].Name
				} else {
					vals := effectiveEnum(d)
					for k, ev := range d.EnumVals {
						ev.Explicit, ev.Value, ev.Spell = true, vals[k], 0
					}
					d.EnumVals[i+1].Value = d.EnumVals[i].Value
				}
				return done(f, d.Name+"."+d.EnumVals[i+1].Name)
			}
		case "enum":
			enums := f.DefsOf(KEnum)
			var cands []*Def
			for _, d := range enums {
				if len(d.EnumVals) > 0 {
					cands = append(cands, d)
				}
			}
			if len(cands) == 0 {
				continue
			}
			d := cands[rng.Intn(len(cands))]
			vals := effectiveEnum(d)
			for k, ev := range d.EnumVals {
				ev.Explicit, ev.Value, ev.Spell = true, vals[k], 0
			}
			ev := d.EnumVals[len(d.EnumVals)-1]
			if parts[1] == "value-above-int32" {
				ev.Value = 1 << 31
			} else {
				ev.Value = -(1 << 31) - 1
			}
			return done(f, d.Name+"."+ev.Name)
		case "type":
			var bad *Type
			switch parts[1] {
			case "undefined-local", "undefined-in-container", "undefined-typedef-target", "undefined-function-result", "undefined-argument", "undefined-throws", "undefined-const-type":
				bad = undefined("NoSuchType_zz")
			case "undefined-in-include":
				if len(f.Includes) == 0 {
					continue
				}
				bad = undefined(f.Includes[rng.Intn(len(f.Includes))].File.Prefix() + ".NoSuchType_zz")
			case "unknown-include-prefix":
				bad = undefined("nosuchprefix_zz.Thing")
			case "constant-used-as-type":
				cs := f.DefsOf(KConst)
				if len(cs) == 0 {
					continue
				}
				bad = undefined(cs[rng.Intn(len(cs))].Name)
			case "service-used-as-type":
				cs := f.DefsOf(KService)
				if len(cs) == 0 {
					continue
				}
				bad = undefined(cs[rng.Intn(len(cs))].Name)
			case "included-service-used-as-type", "included-constant-used-as-type":
				k := KService
				if parts[1] == "included-constant-used-as-type" {
					k = KConst
				}
				var names []string
				for _, inc := range f.Includes {
					n := 0
					for _, other := range f.Includes {
						if other.File.Prefix() == inc.File.Prefix() {
							n++
						}
					}
					if n != 1 {
						continue
					}
					for _, d := range inc.File.DefsOf(k) {
						names = append(names, inc.File.Prefix()+"."+d.Name)
					}
				}
				if len(names) == 0 {
					continue
				}
				bad = undefined(names[rng.Intn(len(names))])
			}
			// positions
			type slot struct {
				set  func(*Type)
				site string
			}
			var slots []slot
			for _, d := range f.Defs {
				d := d
				switch {
				case d.Kind.IsStructLike():
					for _, fl := range d.Fields {
						fl := fl
						slots = append(slots, slot{func(t *Type) { fl.Type = t }, "field:" + d.Kind.String()})
					}
				case d.Kind == KTypedef:
					slots = append(slots, slot{func(t *Type) { d.Type = t }, "typedef-target"})
				case d.Kind == KConst:
					slots = append(slots, slot{func(t *Type) { d.Type = t; d.Value = &Value{Kind: VInt, Int: 1} }, "const-type"})
				case d.Kind == KService:
					for _, fn := range d.Funcs {
						fn := fn
						if !fn.Oneway {
							slots = append(slots, slot{func(t *Type) { fn.Ret = t; fn.Void = false }, "function-result"})
						}
						for _, a := range fn.Args {
							a := a
							slots = append(slots, slot{func(t *Type) { a.Type = t; a.Default = nil }, "argument"})
						}
						for _, a := range fn.Throws {
							a := a
							slots = append(slots, slot{func(t *Type) { a.Type = t }, "throws"})
						}
					}
				}
			}
			want := map[string]string{"undefined-typedef-target": "typedef-target", "undefined-function-result": "function-result", "undefined-argument": "argument",
				"undefined-throws": "throws", "undefined-const-type": "const-type"}[parts[1]]
			var cands []slot
			for _, s := range slots {
				if want == "" && strings.HasPrefix(s.site, "field:") || want != "" && s.site == want {
					cands = append(cands, s)
				}
			}
			if len(cands) == 0 {
				continue
			}
			s := cands[rng.Intn(len(cands))]
			if parts[1] == "undefined-in-container" {
				switch rng.Intn(3) {
				case 0:
					bad = &Type{Name: "list", Elem: bad}
				case 1:
					bad = &Type{Name: "map", Key: &Type{Name: "string"}, Elem: bad}
				default:
					bad = &Type{Name: "map", Key: bad, Elem: &Type{Name: "i32"}}
				}
			}
			s.set(bad)
			// a field whose type changed cannot keep its default
			for _, d := range f.Defs {
				for _, fl := range d.Fields {
					if fl.Type == bad {
						fl.Default = nil
					}
				}
			}
			return done(f, s.site+" "+bad.String())
		case "typedef":
			tds := f.DefsOf(KTypedef)
			if parts[1] == "self" {
				if len(tds) == 0 {
					continue
				}
				d := tds[rng.Intn(len(tds))]
				d.Type = &Type{Name: d.Name}
				return done(f, d.Name)
			}
			if len(tds) < 2 {
				continue
			}
			i := rng.Intn(len(tds) - 1)
			a, c := tds[i], tds[i+1]
			a.Type = &Type{Name: c.Name}
			c.Type = &Type{Name: a.Name}
			if parts[1] == "cycle-with-selector-constant" {
				// a constant that selects a member through the cyclic typedef, as through a typedef of an enum
				f.Defs = append(f.Defs, &Def{Kind: KConst, Name: "ZZ_SEL", File: f, Type: &Type{Name: "i32"}, Value: &Value{Kind: VIdent, Ident: a.Name + ".x"}})
			}
			return done(f, a.Name+" <-> "+c.Name)
		case "value":
			// positions: constants and field defaults of a given type category
			type vslot struct {
				t    *Type
				set  func(*Value)
				site string
			}
			var slots []vslot
			for _, d := range f.Defs {
				d := d
				if d.Kind == KConst {
					slots = append(slots, vslot{d.Type, func(v *Value) { d.Value = v }, "constant"})
				}
				if d.Kind.IsStructLike() && d.Kind != KUnion {
					for _, fl := range d.Fields {
						fl := fl
						slots = append(slots, vslot{fl.Type, func(v *Value) { fl.Default = v }, "default:" + d.Kind.String()})
					}
				}
			}
			pick := func(cats ...string) (vslot, bool) {
				var c []vslot
				for _, s := range slots {
					for _, cat := range cats {
						if s.t.Cat() == cat {
							c = append(c, s)
						}
					}
				}
				if len(c) == 0 {
					return vslot{}, false
				}
				return c[rng.Intn(len(c))], true
			}
			ints := []string{"i8", "i16", "i32", "i64"}
			var s vslot
			var found bool
			var v *Value
			switch parts[1] {
			case "undefined-identifier":
				s, found = pick(ints...)
				v = &Value{Kind: VIdent, Ident: "NO_SUCH_CONSTANT_ZZ"}
			case "undefined-identifier-in-include":
				if len(f.Includes) == 0 {
					continue
				}
				s, found = pick(ints...)
				v = &Value{Kind: VIdent, Ident: f.Includes[rng.Intn(len(f.Includes))].File.Prefix() + ".NO_SUCH_CONSTANT_ZZ"}
			case "undefined-enum-member":
				s, found = pick("enum")
				if found {
					e := s.t.Resolve().Ref
					name := e.Name
					if e.File != f {
						name = e.File.Prefix() + "." + name
					}
					v = &Value{Kind: VIdent, Ident: name + ".NO_SUCH_MEMBER_ZZ"}
				}
			case "ambiguous-identifier":
				// P.M where P is both an include prefix (whose file has a constant M) and a local enum with a member M
				if len(f.Includes) == 0 {
					continue
				}
				g := f.Includes[rng.Intn(len(f.Includes))].File
				if f.Find(g.Prefix()) != nil || g.Find("ZZ_AMBIG") != nil {
					continue
				}
				dup := 0
				for _, inc := range f.Includes {
					if inc.File.Prefix() == g.Prefix() {
						dup++
					}
				}
				if dup != 1 {
					continue
				}
				s, found = pick(ints...)
				if !found {
					continue
				}
				f.Defs = append([]*Def{{Kind: KEnum, Name: g.Prefix(), File: f, EnumVals: []*EnumVal{{Name: "ZZ_AMBIG"}}}}, f.Defs...)
				g.Defs = append([]*Def{{Kind: KConst, Name: "ZZ_AMBIG", File: g, Type: &Type{Name: "i32"}, Value: &Value{Kind: VInt, Int: 1}}}, g.Defs...)
				v = &Value{Kind: VIdent, Ident: g.Prefix() + ".ZZ_AMBIG"}
			case "ambiguous-identifier-two-includes":
				// two includes with one base name (g and zzdup/<g>) both define the constant
				if len(f.Includes) == 0 {
					continue
				}
				g := f.Includes[rng.Intn(len(f.Includes))].File
				dupN := 0
				for _, inc := range f.Includes {
					if inc.File.Prefix() == g.Prefix() {
						dupN++
					}
				}
				if dupN != 1 || g.Find("ZZ_AMBIG2") != nil {
					continue
				}
				s, found = pick(ints...)
				if !found {
					continue
				}
				dup := &File{Path: "zzdup/" + path.Base(g.Path), Namespaces: []*Namespace{{Lang: "go", Name: "vf.zzdup"}}}
				dup.Defs = []*Def{{Kind: KConst, Name: "ZZ_AMBIG2", File: dup, Type: &Type{Name: "i32"}, Value: &Value{Kind: VInt, Int: 2}}}
				g.Defs = append([]*Def{{Kind: KConst, Name: "ZZ_AMBIG2", File: g, Type: &Type{Name: "i32"}, Value: &Value{Kind: VInt, Int: 1}}}, g.Defs...)
				f.Includes = append(f.Includes, &Include{File: dup, Path: relPath(f.Path, dup.Path)})
				p.Files = append(p.Files, dup)
				v = &Value{Kind: VIdent, Ident: g.Prefix() + ".ZZ_AMBIG2"}
			case "string-for-integer":
				s, found = pick(ints...)
				v = &Value{Kind: VString, Str: "twelve"}
			case "string-for-double":
				s, found = pick("double")
				v = &Value{Kind: VString, Str: "1.5"}
			case "string-for-bool":
				s, found = pick("bool")
				v = &Value{Kind: VString, Str: "yes"}
			case "integer-for-string":
				s, found = pick("string")
				v = &Value{Kind: VInt, Int: 12}
			case "list-for-integer":
				s, found = pick(ints...)
				v = &Value{Kind: VList, List: []*Value{{Kind: VInt, Int: 1}}}
			case "map-for-list":
				s, found = pick("list")
				v = &Value{Kind: VMap, Map: [][2]*Value{{{Kind: VInt, Int: 1}, {Kind: VInt, Int: 2}}}}
			case "unknown-field-in-struct-literal":
				s, found = pick("struct")
				v = &Value{Kind: VMap, Map: [][2]*Value{{{Kind: VString, Str: "no_such_field_zz"}, {Kind: VInt, Int: 1}}}}
			case "non-string-key-in-struct-literal":
				s, found = pick("struct")
				v = &Value{Kind: VMap, Map: [][2]*Value{{{Kind: VInt, Int: 7}, {Kind: VInt, Int: 1}}}}
			}
			if !found {
				continue
			}
			s.set(v)
			return done(f, s.site+" of "+s.t.Cat())
		case "function":
			var fns []*Func
			var owner []*Def
			for _, d := range f.DefsOf(KService) {
				for _, fn := range d.Funcs {
					fns = append(fns, fn)
					owner = append(owner, d)
				}
			}
			if len(fns) == 0 {
				continue
			}
			i := rng.Intn(len(fns))
			fn := fns[i]
			fn.Oneway = true
			if parts[1] == "oneway-returns" {
				fn.Void = false
				fn.Ret = &Type{Name: "i32"}
				fn.Throws = nil
			} else {
				var exc *Def
				for _, g := range files {
					if g == f {
						for _, d := range g.DefsOf(KException) {
							exc = d
						}
					}
				}
				if exc == nil {
					continue
				}
				fn.Void = true
				fn.Ret = nil
				fn.Throws = []*Field{{ID: 1, ExplicitID: true, Type: &Type{Name: exc.Name, Ref: exc}, Name: "err_zz"}}
			}
			return done(f, owner[i].Name+"."+fn.Name)
		case "service":
			ss := f.DefsOf(KService)
			if len(ss) == 0 {
				continue
			}
			d := ss[rng.Intn(len(ss))]
			if parts[1] == "unknown-base" {
				d.Extends = &Def{Kind: KService, Name: "NoSuchService_zz", File: f}
			} else {
				if len(f.Includes) == 0 {
					continue
				}
				d.Extends = &Def{Kind: KService, Name: "NoSuchService_zz", File: f.Includes[rng.Intn(len(f.Includes))].File}
			}
			return done(f, d.Name)
		case "union":
			var cands []*Def
			for _, d := range f.DefsOf(KUnion) {
				n := 0
				for _, fl := range d.Fields {
					if c := fl.Type.Cat(); c == "i32" || c == "i64" || c == "string" || c == "i16" || c == "bool" || c == "double" || c == "i8" {
						n++
					}
				}
				if n >= 2 {
					cands = append(cands, d)
				}
			}
			if len(cands) == 0 {
				continue
			}
			d := cands[rng.Intn(len(cands))]
			n := 0
			for _, fl := range d.Fields {
				fl.Default = nil
			}
			for _, fl := range d.Fields {
				var v *Value
				switch fl.Type.Cat() {
				case "i8", "i16", "i32", "i64":
					v = &Value{Kind: VInt, Int: 3}
				case "string":
					v = &Value{Kind: VString, Str: "x"}
				case "bool":
					v = &Value{Kind: VIdent, Ident: "true", BoolLit: 1}
				case "double":
					v = &Value{Kind: VDouble, Dbl: 1.5, DblTxt: "1.5"}
				}
				if v != nil && n < 2 {
					fl.Default = v
					n++
				}
			}
			return done(f, d.Name)
		}
	}
	return nil, false
}

// effectiveIDs gives the ids the fields have (explicit ones as written, implicit ones continuing from the
// previous field).
func effectiveIDs(fs []*Field) []int32 {
	out := make([]int32, len(fs))
	prev := int32(0)
	for i, f := range fs {
		if f.ExplicitID {
			out[i] = f.ID
		} else {
			out[i] = prev + 1
		}
		prev = out[i]
	}
	return out
}

func effectiveEnum(d *Def) []int64 {
	out := make([]int64, len(d.EnumVals))
	next := int64(0)
	for i, ev := range d.EnumVals {
		v := next
		if ev.Explicit {
			v = ev.Value
		}
		out[i] = v
		next = v + 1
	}
	return out
}

// ApplyText applies a text-level edit to the rendered program.
func (b *Broken) ApplyText(rng *vlib.Rng, texts map[string]string) bool {
	if !b.Text {
		return true
	}
	name := b.file.Path
	txt := texts[name]
	switch {
	case b.Kind == "include/missing-file":
		texts[name] = "include \"no_such_dir_zz/no_such_file_zz.thrift\"\n" + txt
	case strings.HasPrefix(b.Kind, "include/cycle-"):
		texts[name] = "include \"" + b.extra + "\"\n" + txt
	case b.Kind == "syntax/unclosed-brace":
		i := strings.LastIndex(txt, "\n}") // a closing brace of a definition, not one inside a literal
		if i < 0 {
			return false
		}
		texts[name] = txt[:i+1] + txt[i+2:]
	case b.Kind == "syntax/stray-token":
		i := strings.Index(txt, "{\n")
		if i < 0 {
			return false
		}
		texts[name] = txt[:i+1] + " ] ] " + txt[i+1:]
	case b.Kind == "syntax/unterminated-string":
		texts[name] = txt + "\nconst string zz_unterminated = \"abc\n"
	case b.Kind == "syntax/missing-type":
		texts[name] = txt + "\nstruct ZzBroken { 1: = 5 }\n"
	}
	return true
}
