package idl

import (
	"fmt"
	"strings"

	"verif/vlib"
)

// Layout holds the free choices of the renderer.  The AST must not depend on any of them.
type Layout struct {
	Rng      *vlib.Rng
	Sep      int  // 0 ',' 1 ';' 2 none 3 random at every position
	Quote    int  // 0 double 1 single 2 random per literal
	Comments int  // 0 none 1 sparse 2 dense
	Space    int  // 0 minimal 1 conventional 2 wild (tabs, CRLF, blank lines)
	IntSpell int  // 0 as the model says, 1 random respelling of every integer
	Shuffle  bool // permute the definitions of each file (C05; changes per-kind order!)
	TrailSep bool // allow a separator after the last element
}

// PlainLayout is the conventional, deterministic layout.
func PlainLayout() *Layout {
	return &Layout{Rng: vlib.NewRng(1, "plain"), Sep: 0, Quote: 0, Comments: 0, Space: 1}
}

// RandomLayout draws a layout.
func RandomLayout(rng *vlib.Rng) *Layout {
	return &Layout{Rng: rng, Sep: rng.Intn(4), Quote: rng.Intn(3), Comments: rng.Intn(3), Space: rng.Intn(3), IntSpell: rng.Intn(2), TrailSep: rng.Bool()}
}

func (l *Layout) String() string {
	return fmt.Sprintf("sep=%d quote=%d comments=%d space=%d intspell=%d trail=%v", l.Sep, l.Quote, l.Comments, l.Space, l.IntSpell, l.TrailSep)
}

var commentPool = []string{"note", "x = 1, y; z", "struct S { 1: i32 a }", "include 'a'", "TODO(someone): (a=\"b\")", "1: optional", "@preserve not really"}

type renderer struct {
	l  *Layout
	sb strings.Builder
	// last emitted character class: true if a word character that would glue to a following word
	lastWord bool
}

func isWordByte(c byte) bool {
	return c == '_' || c == '.' || c == '$' || c == '+' || c == '-' || (c >= '0' && c <= '9') || (c >= 'a' && c <= 'z') || (c >= 'A' && c <= 'Z') || c >= 0x80
}

func (r *renderer) comment() string {
	rng := r.l.Rng
	txt := commentPool[rng.Intn(len(commentPool))]
	switch rng.Intn(3) {
	case 0:
		return "/* " + txt + " */"
	case 1:
		return "// " + txt + r.nl()
	}
	return "# " + txt + r.nl()
}

func (r *renderer) nl() string {
	if r.l.Space == 2 && r.l.Rng.Chance(1, 3) {
		return "\r\n"
	}
	return "\n"
}

// gap emits optional whitespace/comments between two tokens.
func (r *renderer) gap(needSpace bool, preferNL bool) {
	rng := r.l.Rng
	var s string
	switch r.l.Space {
	case 0:
		if needSpace {
			s = " "
		}
	case 1:
		if preferNL {
			s = "\n"
		} else {
			s = " "
		}
	case 2:
		n := rng.Intn(3)
		if needSpace && n == 0 {
			n = 1
		}
		for i := 0; i < n; i++ {
			s += []string{" ", "\t", "\n", "\r\n", "  ", "\v"}[rng.Intn(6)]
		}
		if preferNL && rng.Bool() {
			s += "\n"
		}
	}
	c := r.l.Comments
	if c == 2 && rng.Chance(1, 4) || c == 1 && rng.Chance(1, 25) {
		cm := r.comment()
		// a block comment glued between two words still separates them
		s = s + cm
		if r.l.Space != 0 && rng.Bool() {
			s += " "
		}
	}
	r.sb.WriteString(s)
}

// tok emits one token preceded by a gap.
func (r *renderer) tok(t string) { r.tokNL(t, false) }

func (r *renderer) tokNL(t string, preferNL bool) {
	if t == "" {
		return
	}
	need := r.lastWord && isWordByte(t[0])
	if r.sb.Len() > 0 {
		before := r.sb.Len()
		r.gap(need, preferNL)
		if need && r.sb.Len() == before {
			r.sb.WriteString(" ")
		}
	}
	r.sb.WriteString(t)
	r.lastWord = isWordByte(t[len(t)-1])
}

func (r *renderer) sep(last bool) {
	if last && !r.l.TrailSep {
		return
	}
	k := r.l.Sep
	if k == 3 {
		k = r.l.Rng.Intn(3)
	}
	switch k {
	case 0:
		r.tok(",")
	case 1:
		r.tok(";")
	}
}

func (r *renderer) intLit(v int64, spell int) string {
	if r.l.IntSpell == 1 {
		spell = r.l.Rng.Intn(4)
	}
	if v < 0 {
		return fmt.Sprint(v)
	}
	switch spell {
	case 1:
		if r.l.Rng.Bool() {
			return fmt.Sprintf("0x%X", v)
		}
		return fmt.Sprintf("0x%x", v)
	case 2:
		return fmt.Sprintf("0o%o", v)
	case 3:
		return fmt.Sprintf("+%d", v)
	}
	return fmt.Sprint(v)
}

func (r *renderer) literal(s string, pref byte) string {
	q := byte('"')
	switch r.l.Quote {
	case 1:
		q = '\''
	case 2:
		if r.l.Rng.Bool() {
			q = '\''
		}
	}
	if pref != 0 && r.l.Quote == 2 {
		q = pref
	}
	// an over-escaped quote (odd run of backslashes before it) can only be written inside the other quote kind
	for i, run := 0, 0; i < len(s); i++ {
		if s[i] == '\\' {
			run++
			continue
		}
		if run%2 == 1 && s[i] == '"' {
			q = '\''
		} else if run%2 == 1 && s[i] == '\'' {
			q = '"'
		}
		run = 0
	}
	var sb strings.Builder
	sb.WriteByte(q)
	for i := 0; i < len(s); i++ {
		if s[i] == q {
			sb.WriteByte('\\')
		}
		sb.WriteByte(s[i])
	}
	sb.WriteByte(q)
	return sb.String()
}

func (r *renderer) anns(a []AnnPair) {
	if len(a) == 0 {
		return
	}
	r.tok("(")
	for i, p := range a {
		r.tok(p.K)
		r.tok("=")
		r.tok(r.literal(p.V, 0))
		r.sep(i == len(a)-1)
	}
	r.tok(")")
}

func (r *renderer) typ(t *Type) {
	switch {
	case t.Ref != nil:
		r.tok(t.Written())
	case t.Name == "map":
		r.tok("map")
		if t.CppType != "" {
			r.tok("cpp_type")
			r.tok(r.literal(t.CppType, 0))
		}
		r.tok("<")
		r.typ(t.Key)
		r.tok(",")
		r.typ(t.Elem)
		r.tok(">")
	case t.Name == "set":
		r.tok("set")
		if t.CppType != "" {
			r.tok("cpp_type")
			r.tok(r.literal(t.CppType, 0))
		}
		r.tok("<")
		r.typ(t.Elem)
		r.tok(">")
	case t.Name == "list":
		r.tok("list")
		r.tok("<")
		r.typ(t.Elem)
		r.tok(">")
		if t.CppType != "" {
			r.tok("cpp_type")
			r.tok(r.literal(t.CppType, 0))
		}
	default:
		r.tok(t.Name)
	}
	r.anns(t.Ann)
}

func (r *renderer) value(v *Value) {
	switch v.Kind {
	case VInt:
		r.tok(r.intLit(v.Int, v.Spell))
	case VDouble:
		r.tok(v.DblTxt)
	case VString:
		r.tok(r.literal(v.Str, v.Quote))
	case VIdent:
		r.tok(v.Ident)
	case VList:
		r.tok("[")
		for i, e := range v.List {
			r.value(e)
			r.sep(i == len(v.List)-1)
		}
		r.tok("]")
	case VMap:
		r.tok("{")
		for i, e := range v.Map {
			r.value(e[0])
			r.tok(":")
			r.value(e[1])
			r.sep(i == len(v.Map)-1)
		}
		r.tok("}")
	}
}

func (r *renderer) field(f *Field, last bool) {
	if f.ExplicitID {
		r.tokNL(r.intLit(int64(f.ID), f.IDSpell), true)
		r.tok(":")
	}
	switch f.Req {
	case ReqRequired:
		r.tok("required")
	case ReqOptional:
		r.tok("optional")
	}
	r.typ(f.Type)
	r.tok(f.Name)
	if f.Default != nil {
		r.tok("=")
		r.value(f.Default)
	}
	r.anns(f.Ann)
	r.sep(last)
}

func (r *renderer) def(d *Def) {
	if d.Preserve {
		r.sb.WriteString("\n// @preserve\n")
		r.lastWord = false
	}
	switch d.Kind {
	case KTypedef:
		r.tokNL("typedef", true)
		r.typ(d.Type)
		r.tok(d.Name)
		r.anns(d.Ann)
	case KConst:
		r.tokNL("const", true)
		r.typ(d.Type)
		r.tok(d.Name)
		r.tok("=")
		r.value(d.Value)
		if len(d.Ann) == 0 || r.l.Rng.Bool() {
			r.sep(!r.l.TrailSep || true && r.l.Rng.Bool())
		}
		r.anns(d.Ann)
	case KEnum:
		r.tokNL("enum", true)
		r.tok(d.Name)
		r.tok("{")
		for i, ev := range d.EnumVals {
			r.tokNL(ev.Name, true)
			if ev.Explicit {
				r.tok("=")
				r.tok(r.intLit(ev.Value, ev.Spell))
			}
			r.anns(ev.Ann)
			r.sep(i == len(d.EnumVals)-1)
		}
		r.tokNL("}", true)
		r.anns(d.Ann)
	case KStruct, KUnion, KException:
		r.tokNL(d.Kind.String(), true)
		r.tok(d.Name)
		r.tok("{")
		for i, f := range d.Fields {
			r.field(f, i == len(d.Fields)-1)
		}
		r.tokNL("}", true)
		r.anns(d.Ann)
	case KService:
		r.tokNL("service", true)
		r.tok(d.Name)
		if d.Extends != nil {
			r.tok("extends")
			if d.Extends.File != d.File {
				r.tok(d.Extends.File.Prefix() + "." + d.Extends.Name)
			} else {
				r.tok(d.Extends.Name)
			}
		}
		r.tok("{")
		for i, fn := range d.Funcs {
			if fn.Oneway {
				r.tokNL("oneway", true)
			}
			if fn.Void {
				r.tokNL("void", !fn.Oneway)
			} else {
				r.typ(fn.Ret)
			}
			r.tok(fn.Name)
			r.tok("(")
			for j, a := range fn.Args {
				r.field(a, j == len(fn.Args)-1)
			}
			r.tok(")")
			if len(fn.Throws) > 0 {
				r.tok("throws")
				r.tok("(")
				for j, a := range fn.Throws {
					r.field(a, j == len(fn.Throws)-1)
				}
				r.tok(")")
			}
			r.anns(fn.Ann)
			r.sep(i == len(d.Funcs)-1)
		}
		r.tokNL("}", true)
		r.anns(d.Ann)
	}
}

// Render produces the text of one file under a layout.
func Render(f *File, l *Layout) string {
	r := &renderer{l: l}
	if l.Comments > 0 && l.Rng.Bool() {
		r.sb.WriteString("# leading comment\n")
	}
	for _, inc := range f.Includes {
		r.tokNL("include", true)
		r.tok(r.literal(inc.Path, 0))
	}
	for _, c := range f.CppIncludes {
		r.tokNL("cpp_include", true)
		r.tok(r.literal(c, 0))
	}
	for _, ns := range f.Namespaces {
		r.tokNL("namespace", true)
		r.tok(ns.Lang)
		r.tok(ns.Name)
		r.anns(ns.Ann)
	}
	defs := f.Defs
	if l.Shuffle {
		perm := l.Rng.Perm(len(defs))
		nd := make([]*Def, len(defs))
		for i, p := range perm {
			nd[i] = defs[p]
		}
		defs = nd
	}
	for _, d := range defs {
		r.def(d)
	}
	r.sb.WriteString("\n")
	return r.sb.String()
}

// RenderProgram renders every file of the program (path -> text).
func RenderProgram(p *Program, l *Layout) map[string]string {
	out := map[string]string{}
	for _, f := range p.Files {
		out[f.Path] = Render(f, l)
	}
	return out
}
