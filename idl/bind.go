package idl

import (
	"fmt"

	"github.com/cloudwego/thriftgo/parser"
)

// CompareResolved compares an analysed AST (after CheckAll + ResolveSymbols) with the model:
// everything CompareAST checks plus the resolution results of C3.2.
func CompareResolved(f *File, ast *parser.Thrift) []Diff {
	c := &cmp{file: f.Path, sem: true}
	c.compare(f, ast)
	c.resolved(f, ast)
	return c.diffs
}

func wantCategory(t *Type) parser.Category {
	switch t.Cat() {
	case "bool":
		return parser.Category_Bool
	case "i8":
		return parser.Category_Byte
	case "i16":
		return parser.Category_I16
	case "i32":
		return parser.Category_I32
	case "i64":
		return parser.Category_I64
	case "double":
		return parser.Category_Double
	case "string":
		return parser.Category_String
	case "binary":
		return parser.Category_Binary
	case "map":
		return parser.Category_Map
	case "list":
		return parser.Category_List
	case "set":
		return parser.Category_Set
	case "enum":
		return parser.Category_Enum
	case "struct":
		return parser.Category_Struct
	case "union":
		return parser.Category_Union
	case "exception":
		return parser.Category_Exception
	}
	return -1
}

// semType checks Category / IsTypedef / Reference of one type expression and its children.
func (c *cmp) semType(f *File, ast *parser.Thrift, site, where string, want *Type, got *parser.Type) {
	if got == nil || want == nil {
		return
	}
	if wc := wantCategory(want); got.Category != wc {
		c.add(site+".category", where, "type %s: want final category %v got %v", want, wc, got.Category)
	}
	isTd := want.Ref != nil && want.Ref.Kind == KTypedef
	if isTd != got.GetIsTypedef() {
		c.add(site+".istypedef", where, "type %s: want IsTypedef=%v got %v", want, isTd, got.GetIsTypedef())
	}
	if want.Ref != nil && want.Qual {
		idx := f.IncludeIndex(want.Ref.File)
		// the first include whose base name equals the prefix and which defines the name
		for i, inc := range f.Includes {
			if inc.File.Prefix() == want.Ref.File.Prefix() && inc.File.Find(want.Ref.Name) != nil {
				idx = i
				break
			}
		}
		if got.Reference == nil {
			c.add(site+".reference.missing", where, "type %s written with include prefix but Reference unset", want)
		} else if got.Reference.Name != want.Ref.Name || int(got.Reference.Index) != idx {
			c.add(site+".reference.value", where, "type %s: want {%s,%d} got {%s,%d}", want, want.Ref.Name, idx, got.Reference.Name, got.Reference.Index)
		} else if int(got.Reference.Index) < len(ast.Includes) {
			// the referenced AST must really define it
			inc := ast.Includes[got.Reference.Index].Reference
			if inc == nil {
				c.add(site+".reference.noast", where, "include %d has no AST", got.Reference.Index)
			}
		}
	} else if got.Reference != nil {
		c.add(site+".reference.unexpected", where, "type %s written without prefix but Reference=%v", want, got.Reference)
	}
	if want.Ref == nil && want.Name == "map" {
		c.semType(f, ast, site+".key", where, want.Key, got.KeyType)
	}
	if want.Ref == nil && (want.Name == "map" || want.Name == "list" || want.Name == "set") {
		c.semType(f, ast, site+".elem", where, want.Elem, got.ValueType)
	}
}

// binding checks ConstValue.Extra of an identifier against the model's intended binding.
func (c *cmp) binding(site, where string, want *Value, got *parser.ConstValue) {
	if want.BoolLit != 0 {
		return // true/false: nothing prescribed
	}
	ex := got.Extra
	if ex == nil {
		c.add(site+".extra.missing", where, "identifier %s carries no binding", want.Ident)
		return
	}
	switch {
	case want.ToConst != nil:
		// filled by the caller-aware variant (needs the file); see bindCheck
	}
}

// resolved walks the whole file once more with the analysed AST for the semantic facts.
func (c *cmp) resolved(f *File, ast *parser.Thrift) {
	if ast == nil {
		return
	}
	var walkV func(site, where string, want *Value, got *parser.ConstValue)
	walkV = func(site, where string, want *Value, got *parser.ConstValue) {
		if want == nil || got == nil || got.TypedValue == nil {
			return
		}
		switch want.Kind {
		case VIdent:
			c.bindCheck(f, ast, site, where, want, got)
		case VList:
			if len(got.TypedValue.List) == len(want.List) {
				for i := range want.List {
					walkV(site, where, want.List[i], got.TypedValue.List[i])
				}
			}
		case VMap:
			if len(got.TypedValue.Map) == len(want.Map) {
				for i := range want.Map {
					walkV(site, where, want.Map[i][0], got.TypedValue.Map[i].Key)
					walkV(site, where, want.Map[i][1], got.TypedValue.Map[i].Value)
				}
			}
		}
	}
	fields := func(site, where string, want []*Field, got []*parser.Field) {
		if len(want) != len(got) {
			return
		}
		for i, fl := range want {
			w := where + "." + fl.Name
			c.semType(f, ast, site, w, fl.Type, got[i].Type)
			walkV(site+".default", w, fl.Default, got[i].Default)
		}
	}
	tds := f.DefsOf(KTypedef)
	if len(tds) == len(ast.Typedefs) {
		for i, d := range tds {
			c.semType(f, ast, "typedef", "typedef "+d.Name, d.Type, ast.Typedefs[i].Type)
		}
	}
	cs := f.DefsOf(KConst)
	if len(cs) == len(ast.Constants) {
		for i, d := range cs {
			c.semType(f, ast, "const", "const "+d.Name, d.Type, ast.Constants[i].Type)
			walkV("const.value", "const "+d.Name, d.Value, ast.Constants[i].Value)
		}
	}
	for _, k := range []DefKind{KStruct, KUnion, KException} {
		ss := f.DefsOf(k)
		gs := ast.Structs
		if k == KUnion {
			gs = ast.Unions
		} else if k == KException {
			gs = ast.Exceptions
		}
		if len(ss) != len(gs) {
			continue
		}
		for i, d := range ss {
			fields(k.String()+".field", k.String()+" "+d.Name, d.Fields, gs[i].Fields)
		}
	}
	svs := f.DefsOf(KService)
	if len(svs) == len(ast.Services) {
		for i, d := range svs {
			if len(d.Funcs) != len(ast.Services[i].Functions) {
				continue
			}
			for j, fn := range d.Funcs {
				gf := ast.Services[i].Functions[j]
				w := "service " + d.Name + "." + fn.Name
				if !fn.Void {
					c.semType(f, ast, "function.return", w, fn.Ret, gf.FunctionType)
				}
				fields("function.arg", w, fn.Args, gf.Arguments)
				fields("function.throws", w, fn.Throws, gf.Throws)
			}
		}
	}
	// Include.Used
	used := UsedIncludes(f)
	if len(ast.Includes) == len(f.Includes) {
		for i, inc := range f.Includes {
			g := ast.Includes[i]
			if used[i] != g.GetUsed() {
				c.add("include.used", inc.Path, "want Used=%v got %v (set=%v)", used[i], g.GetUsed(), g.Used != nil)
			}
		}
	}
}

// bindCheck: Extra, read as documented in AST.thrift, must denote the intended constant or enum member.
func (c *cmp) bindCheck(f *File, ast *parser.Thrift, site, where string, want *Value, got *parser.ConstValue) {
	if want.BoolLit != 0 {
		return
	}
	ex := got.Extra
	if ex == nil {
		c.add(site+".extra.missing", where, "identifier %s carries no binding", want.Ident)
		return
	}
	// file the binding points into
	target := ast
	tf := f
	if ex.Index >= 0 {
		if int(ex.Index) >= len(ast.Includes) || ast.Includes[ex.Index].Reference == nil {
			c.add(site+".extra.index-out-of-range", where, "identifier %s: Index=%d with %d includes", want.Ident, ex.Index, len(ast.Includes))
			return
		}
		target = ast.Includes[ex.Index].Reference
		tf = f.Includes[ex.Index].File
	}
	switch {
	case want.ToConst != nil:
		if ex.IsEnum {
			c.add(site+".extra.isenum", where, "identifier %s names constant %s but IsEnum=true", want.Ident, want.ToConst.Name)
			return
		}
		if tf != want.ToConst.File || ex.Name != want.ToConst.Name {
			c.add(site+".extra.const-binding", where, "identifier %s should bind constant %s of %s; got Name=%q in %s (Index=%d)", want.Ident, want.ToConst.Name, want.ToConst.File.Path, ex.Name, tf.Path, ex.Index)
			return
		}
		found := false
		for _, k := range target.Constants {
			if k.Name == ex.Name {
				found = true
			}
		}
		if !found {
			c.add(site+".extra.const-absent", where, "bound file %s has no constant %q", target.Filename, ex.Name)
		}
		// exact values are prescribed for plain forms
		wantIdx := int32(-1)
		if want.ToConst.File != f {
			wantIdx = int32(f.IncludeIndex(want.ToConst.File))
		}
		if ex.Index != wantIdx {
			c.add(site+".extra.const-index", where, "identifier %s: want Index=%d got %d", want.Ident, wantIdx, ex.Index)
		}
	case want.ToEnumVal != nil:
		if !ex.IsEnum {
			c.add(site+".extra.isenum", where, "identifier %s names enum member %s.%s but IsEnum=false", want.Ident, want.ToEnum.Name, want.ToEnumVal.Name)
			return
		}
		if ex.Name != want.ToEnumVal.Name {
			c.add(site+".extra.enum-member", where, "identifier %s: want member %q got %q", want.Ident, want.ToEnumVal.Name, ex.Name)
			return
		}
		if want.ViaType != nil && want.ViaType.File == f {
			// The selector is a typedef of this file.  AST.thrift documents Sel as "the selector"
			// (as written) and Index as "the include index": Sel is resolved where it is written,
			// and Index names the include through which its typedef chain leaves this file
			// (-1 when the chain stays local).  Exact values beyond that are not prescribed.
			if ex.Sel != want.ViaType.Name {
				c.add(site+".extra.typedef-sel", where, "identifier %s: want Sel=%q got %q", want.Ident, want.ViaType.Name, ex.Sel)
			}
			wantIdx := int32(-1)
			for t := want.ViaType.Type; t != nil && t.Ref != nil; {
				if t.Ref.File != f {
					wantIdx = int32(f.IncludeIndex(t.Ref.File))
					for i, inc := range f.Includes {
						if inc.File.Prefix() == t.Ref.File.Prefix() && inc.File.Find(t.Ref.Name) != nil {
							wantIdx = int32(i)
							break
						}
					}
					break
				}
				if t.Ref.Kind != KTypedef {
					break
				}
				t = t.Ref.Type
			}
			if ex.Index != wantIdx {
				c.add(site+".extra.typedef-sel-index", where, "identifier %s: selector chain leaves the file through include %d, Extra.Index=%d", want.Ident, wantIdx, ex.Index)
			}
			return
		}
		// Sel looked up in the target file, typedefs followed, must be the intended enum
		en, ok := derefEnum(target, tf, ex.Sel, 0)
		if !ok {
			c.add(site+".extra.enum-sel-unresolvable", where, "identifier %s: Sel=%q not an enum (or typedef of one) in %s", want.Ident, ex.Sel, tf.Path)
			return
		}
		if en != want.ToEnum {
			c.add(site+".extra.enum-binding", where, "identifier %s should bind %s.%s; Extra denotes enum %s", want.Ident, want.ToEnum.Name, want.ToEnumVal.Name, en.Name)
		}
		if want.ViaType == nil {
			// plain forms: exact values (C3.2)
			wantIdx := int32(-1)
			if want.ToEnum.File != f {
				wantIdx = int32(f.IncludeIndex(want.ToEnum.File))
			}
			if ex.Index != wantIdx || ex.Sel != want.ToEnum.Name {
				c.add(site+".extra.enum-plain-form", where, "identifier %s: want {Index=%d Sel=%s} got {Index=%d Sel=%s}", want.Ident, wantIdx, want.ToEnum.Name, ex.Index, ex.Sel)
			}
		}
	}
}

// derefEnum finds, in the model, what `sel` denotes in file tf (enum or typedef chain to an enum),
// while checking that the analysed AST `target` has a definition of that name too.
func derefEnum(target *parser.Thrift, tf *File, sel string, depth int) (*Def, bool) {
	if depth > 20 {
		return nil, false
	}
	d := tf.Find(sel)
	if d == nil {
		return nil, false
	}
	switch d.Kind {
	case KEnum:
		for _, e := range target.Enums {
			if e.Name == sel {
				return d, true
			}
		}
		return nil, false
	case KTypedef:
		r := d.Type.Resolve()
		if r.Ref != nil && r.Ref.Kind == KEnum {
			return r.Ref, true
		}
	}
	return nil, false
}

// refsOf lists the files a file refers to through its includes.
func UsedIncludes(f *File) []bool {
	used := make([]bool, len(f.Includes))
	mark := func(g *File) {
		if g == nil || g == f {
			return
		}
		for i, inc := range f.Includes {
			if inc.File == g {
				used[i] = true
				return
			}
		}
	}
	var walkT func(t *Type)
	walkT = func(t *Type) {
		if t == nil {
			return
		}
		if t.Ref != nil && t.Qual {
			mark(t.Ref.File)
		}
		walkT(t.Key)
		walkT(t.Elem)
	}
	var walkV func(v *Value)
	walkV = func(v *Value) {
		if v == nil {
			return
		}
		if v.Kind == VIdent {
			if v.ToConst != nil {
				mark(v.ToConst.File)
			}
			if v.ToEnumVal != nil {
				if v.ViaType != nil {
					mark(v.ViaType.File)
				} else {
					mark(v.ToEnum.File)
				}
			}
		}
		for _, e := range v.List {
			walkV(e)
		}
		for _, e := range v.Map {
			walkV(e[0])
			walkV(e[1])
		}
	}
	for _, d := range f.Defs {
		walkT(d.Type)
		walkV(d.Value)
		for _, fl := range d.Fields {
			walkT(fl.Type)
			walkV(fl.Default)
		}
		if d.Extends != nil {
			mark(d.Extends.File)
		}
		for _, fn := range d.Funcs {
			walkT(fn.Ret)
			for _, a := range append(append([]*Field{}, fn.Args...), fn.Throws...) {
				walkT(a.Type)
				walkV(a.Default)
			}
		}
	}
	return used
}

// PruneUnusedIncludes removes includes nothing refers to.
func PruneUnusedIncludes(p *Program) {
	for _, f := range p.Files {
		used := UsedIncludes(f)
		var keep []*Include
		for i, inc := range f.Includes {
			if used[i] {
				keep = append(keep, inc)
			}
		}
		f.Includes = keep
	}
	// drop files no longer reachable from main
	reach := map[*File]bool{}
	var visit func(f *File)
	visit = func(f *File) {
		if reach[f] {
			return
		}
		reach[f] = true
		for _, inc := range f.Includes {
			visit(inc.File)
		}
	}
	visit(p.Files[0])
	var files []*File
	for _, f := range p.Files {
		if reach[f] {
			files = append(files, f)
		}
	}
	p.Files = files
}

var _ = fmt.Sprint
