package idl

import (
	"fmt"
	"math"

	"github.com/cloudwego/thriftgo/parser"
)

// Diff is one disagreement between the model and an AST produced by thriftgo.
type Diff struct {
	Site   string // AST path shape, e.g. "struct.field.id", "const.value.double"
	Where  string // concrete location, e.g. "main.thrift:struct User.field name"
	Detail string
}

func (d Diff) String() string { return d.Site + " @ " + d.Where + ": " + d.Detail }

type cmp struct {
	diffs []Diff
	file  string
	// semantic: also check resolution results
	sem bool
	// lenientDouble: a double may come back as an integer literal of equal value (dump -> parse)
	lenientDouble bool
}

func (c *cmp) add(site, where, f string, a ...interface{}) {
	if len(c.diffs) < 50 {
		c.diffs = append(c.diffs, Diff{site, c.file + ":" + where, fmt.Sprintf(f, a...)})
	}
}

// Accumulate folds annotation pairs: one entry per key in order of first occurrence.
func Accumulate(a []AnnPair) (keys []string, vals map[string][]string) {
	vals = map[string][]string{}
	for _, p := range a {
		if _, ok := vals[p.K]; !ok {
			keys = append(keys, p.K)
		}
		vals[p.K] = append(vals[p.K], p.V)
	}
	return
}

func (c *cmp) anns(site, where string, want []AnnPair, got parser.Annotations) {
	keys, vals := Accumulate(want)
	if len(keys) != len(got) {
		c.add(site+".annotations.count", where, "want %d keys %v, got %d: %v", len(keys), keys, len(got), annStr(got))
		return
	}
	for i, k := range keys {
		if got[i].Key != k {
			c.add(site+".annotations.key", where, "key #%d want %q got %q", i, k, got[i].Key)
			continue
		}
		if fmt.Sprintf("%q", vals[k]) != fmt.Sprintf("%q", got[i].Values) {
			c.add(site+".annotations.values", where, "key %q want %q got %q", k, vals[k], got[i].Values)
		}
	}
}

func annStr(a parser.Annotations) string {
	s := ""
	for _, x := range a {
		s += fmt.Sprintf("%s=%q ", x.Key, x.Values)
	}
	return s
}

func (c *cmp) typ(site, where string, want *Type, got *parser.Type) {
	if got == nil {
		c.add(site+".type.nil", where, "type missing")
		return
	}
	wn := want.Written()
	if got.Name != wn {
		c.add(site+".type.name", where, "want %q got %q", wn, got.Name)
		return
	}
	if got.CppType != want.CppType {
		c.add(site+".type.cpptype", where, "want %q got %q", want.CppType, got.CppType)
	}
	c.anns(site+".type", where, want.Ann, got.Annotations)
	if want.Ref == nil && want.Name == "map" {
		c.typ(site+".key", where, want.Key, got.KeyType)
	} else if got.KeyType != nil {
		c.add(site+".type.key", where, "unexpected key type")
	}
	if want.Ref == nil && (want.Name == "map" || want.Name == "list" || want.Name == "set") {
		c.typ(site+".elem", where, want.Elem, got.ValueType)
	} else if got.ValueType != nil {
		c.add(site+".type.elem", where, "unexpected value type")
	}
}

func (c *cmp) value(site, where string, want *Value, got *parser.ConstValue) {
	if want == nil {
		if got != nil {
			c.add(site+".unexpected", where, "value present, none written: %v", got)
		}
		return
	}
	if got == nil {
		c.add(site+".missing", where, "value written but absent: %s", want)
		return
	}
	tv := got.TypedValue
	if tv == nil {
		c.add(site+".typedvalue-nil", where, "no typed value")
		return
	}
	switch want.Kind {
	case VInt:
		if got.Type != parser.ConstType_ConstInt || tv.Int == nil {
			c.add(site+".int.kind", where, "want int %d, got %v", want.Int, got.Type)
		} else if *tv.Int != want.Int {
			c.add(site+".int.value", where, "want %d got %d", want.Int, *tv.Int)
		}
	case VDouble:
		if c.lenientDouble && got.Type == parser.ConstType_ConstInt && tv.Int != nil {
			if float64(*tv.Int) != want.Dbl {
				c.add(site+".double.value", where, "written %s = %v, re-read as integer %d", want.DblTxt, want.Dbl, *tv.Int)
			}
		} else if got.Type != parser.ConstType_ConstDouble || tv.Double == nil {
			c.add(site+".double.kind", where, "want double %s, got %v", want.DblTxt, got.Type)
		} else if math.Float64bits(*tv.Double) != math.Float64bits(want.Dbl) {
			c.add(site+".double.value", where, "written %s = %v, got %v", want.DblTxt, want.Dbl, *tv.Double)
		}
	case VString:
		if got.Type != parser.ConstType_ConstLiteral || tv.Literal == nil {
			c.add(site+".literal.kind", where, "want literal %q, got %v", want.Str, got.Type)
		} else if *tv.Literal != want.Str {
			c.add(site+".literal.text", where, "want %q got %q", want.Str, *tv.Literal)
		}
	case VIdent:
		if got.Type != parser.ConstType_ConstIdentifier || tv.Identifier == nil {
			c.add(site+".ident.kind", where, "want identifier %s, got %v", want.Ident, got.Type)
		} else if *tv.Identifier != want.Ident {
			c.add(site+".ident.text", where, "want %q got %q", want.Ident, *tv.Identifier)
		} else if c.sem {
			c.binding(site, where, want, got)
		}
	case VList:
		if got.Type != parser.ConstType_ConstList {
			c.add(site+".list.kind", where, "want list, got %v", got.Type)
		} else if len(tv.List) != len(want.List) {
			c.add(site+".list.len", where, "want %d elements got %d", len(want.List), len(tv.List))
		} else {
			for i := range want.List {
				c.value(site+".elem", where, want.List[i], tv.List[i])
			}
		}
	case VMap:
		if got.Type != parser.ConstType_ConstMap {
			c.add(site+".map.kind", where, "want map, got %v", got.Type)
		} else if len(tv.Map) != len(want.Map) {
			c.add(site+".map.len", where, "want %d entries got %d", len(want.Map), len(tv.Map))
		} else {
			for i := range want.Map {
				c.value(site+".key", where, want.Map[i][0], tv.Map[i].Key)
				c.value(site+".val", where, want.Map[i][1], tv.Map[i].Value)
			}
		}
	}
}

func (c *cmp) field(site, where string, owner *Def, kind string, want *Field, got *parser.Field) {
	w := where + "." + want.Name
	if got.Name != want.Name {
		c.add(site+".name", w, "want %q got %q", want.Name, got.Name)
		return
	}
	if got.ID != want.ID {
		spell := "implicit"
		if want.ExplicitID {
			spell = fmt.Sprintf("explicit(spelling %d)", want.IDSpell)
		}
		c.add(site+".id", w, "want %d (%s) got %d", want.ID, spell, got.ID)
	}
	wr := want.Req
	if c.sem && kind == "union" || kind == "throws" {
		wr = ReqOptional // the grammar's consumer defines throws as optional; union members become optional after analysis
	}
	if c.sem && kind == "args" && wr == ReqOptional {
		wr = ReqDefault
	}
	gr := Req(-1)
	switch got.Requiredness {
	case parser.FieldType_Default:
		gr = ReqDefault
	case parser.FieldType_Required:
		gr = ReqRequired
	case parser.FieldType_Optional:
		gr = ReqOptional
	}
	if gr != wr {
		c.add(site+".requiredness", w, "want %s got %s", wr, got.Requiredness)
	}
	c.typ(site, w, want.Type, got.Type)
	c.value(site+".default", w, want.Default, got.Default)
	c.anns(site, w, want.Ann, got.Annotations)
}

func (c *cmp) fields(site, where string, owner *Def, kind string, want []*Field, got []*parser.Field) {
	if len(want) != len(got) {
		c.add(site+".count", where, "want %d got %d", len(want), len(got))
		return
	}
	for i := range want {
		c.field(site, where, owner, kind, want[i], got[i])
	}
}

// CompareDumped compares the AST obtained by parsing dumped IDL text with the model: like
// CompareAST, but a double may have been written as an integer literal of equal value.
func CompareDumped(f *File, ast *parser.Thrift) []Diff {
	c := &cmp{file: f.Path, lenientDouble: true}
	c.compare(f, ast)
	return c.diffs
}

// CompareAST compares the AST thriftgo produced for one file with the model (C3.1).
// sem=true also checks what semantic analysis adds (C3.2) — see CompareBindings.
func CompareAST(f *File, ast *parser.Thrift) []Diff {
	c := &cmp{file: f.Path}
	c.compare(f, ast)
	return c.diffs
}

func (c *cmp) compare(f *File, ast *parser.Thrift) {
	if ast == nil {
		c.add("file.nil", "", "no AST")
		return
	}
	// includes
	if len(ast.Includes) != len(f.Includes) {
		c.add("include.count", "", "want %d got %d", len(f.Includes), len(ast.Includes))
	} else {
		for i, inc := range f.Includes {
			if ast.Includes[i].Path != inc.Path {
				c.add("include.path", fmt.Sprint(i), "want %q got %q", inc.Path, ast.Includes[i].Path)
			}
		}
	}
	if fmt.Sprintf("%q", ast.CppIncludes) != fmt.Sprintf("%q", f.CppIncludes) && !(len(ast.CppIncludes) == 0 && len(f.CppIncludes) == 0) {
		c.add("cppinclude", "", "want %q got %q", f.CppIncludes, ast.CppIncludes)
	}
	if len(ast.Namespaces) != len(f.Namespaces) {
		c.add("namespace.count", "", "want %d got %d", len(f.Namespaces), len(ast.Namespaces))
	} else {
		for i, ns := range f.Namespaces {
			g := ast.Namespaces[i]
			if g.Language != ns.Lang || g.Name != ns.Name {
				c.add("namespace.text", fmt.Sprint(i), "want %s %s got %s %s", ns.Lang, ns.Name, g.Language, g.Name)
			}
			c.anns("namespace", ns.Lang, ns.Ann, g.Annotations)
		}
	}
	// definitions per kind in source order
	tds := f.DefsOf(KTypedef)
	if len(tds) != len(ast.Typedefs) {
		c.add("typedef.count", "", "want %d got %d", len(tds), len(ast.Typedefs))
	} else {
		for i, d := range tds {
			g := ast.Typedefs[i]
			w := "typedef " + d.Name
			if g.Alias != d.Name {
				c.add("typedef.name", w, "got %q", g.Alias)
				continue
			}
			c.typ("typedef", w, d.Type, g.Type)
			c.anns("typedef", w, d.Ann, g.Annotations)
		}
	}
	cs := f.DefsOf(KConst)
	if len(cs) != len(ast.Constants) {
		c.add("const.count", "", "want %d got %d", len(cs), len(ast.Constants))
	} else {
		for i, d := range cs {
			g := ast.Constants[i]
			w := "const " + d.Name
			if g.Name != d.Name {
				c.add("const.name", w, "got %q", g.Name)
				continue
			}
			c.typ("const", w, d.Type, g.Type)
			c.value("const.value", w, d.Value, g.Value)
			c.anns("const", w, d.Ann, g.Annotations)
		}
	}
	es := f.DefsOf(KEnum)
	if len(es) != len(ast.Enums) {
		c.add("enum.count", "", "want %d got %d", len(es), len(ast.Enums))
	} else {
		for i, d := range es {
			g := ast.Enums[i]
			w := "enum " + d.Name
			if g.Name != d.Name {
				c.add("enum.name", w, "got %q", g.Name)
				continue
			}
			c.anns("enum", w, d.Ann, g.Annotations)
			if len(g.Values) != len(d.EnumVals) {
				c.add("enum.value.count", w, "want %d got %d", len(d.EnumVals), len(g.Values))
				continue
			}
			for j, ev := range d.EnumVals {
				gv := g.Values[j]
				if gv.Name != ev.Name {
					c.add("enum.value.name", w, "want %q got %q", ev.Name, gv.Name)
					continue
				}
				if gv.Value != ev.Value {
					how := "implicit"
					if ev.Explicit {
						how = "explicit"
					}
					c.add("enum.value.number."+how, w+"."+ev.Name, "want %d got %d", ev.Value, gv.Value)
				}
				c.anns("enum.value", w+"."+ev.Name, ev.Ann, gv.Annotations)
			}
		}
	}
	for _, k := range []DefKind{KStruct, KUnion, KException} {
		ss := f.DefsOf(k)
		var gs []*parser.StructLike
		switch k {
		case KStruct:
			gs = ast.Structs
		case KUnion:
			gs = ast.Unions
		case KException:
			gs = ast.Exceptions
		}
		if len(ss) != len(gs) {
			c.add(k.String()+".count", "", "want %d got %d", len(ss), len(gs))
			continue
		}
		for i, d := range ss {
			g := gs[i]
			w := k.String() + " " + d.Name
			if g.Name != d.Name {
				c.add(k.String()+".name", w, "got %q", g.Name)
				continue
			}
			if g.Category != k.String() {
				c.add(k.String()+".category", w, "got %q", g.Category)
			}
			c.anns(k.String(), w, d.Ann, g.Annotations)
			c.fields(k.String()+".field", w, d, k.String(), d.Fields, g.Fields)
		}
	}
	svs := f.DefsOf(KService)
	if len(svs) != len(ast.Services) {
		c.add("service.count", "", "want %d got %d", len(svs), len(ast.Services))
	} else {
		for i, d := range svs {
			g := ast.Services[i]
			w := "service " + d.Name
			if g.Name != d.Name {
				c.add("service.name", w, "got %q", g.Name)
				continue
			}
			ext := ""
			if d.Extends != nil {
				ext = d.Extends.Name
				if d.Extends.File != d.File {
					ext = d.Extends.File.Prefix() + "." + ext
				}
			}
			if g.Extends != ext {
				c.add("service.extends", w, "want %q got %q", ext, g.Extends)
			}
			if c.sem {
				if d.Extends != nil && d.Extends.File != d.File {
					if g.Reference == nil {
						c.add("service.reference.missing", w, "extends %s but Reference unset", ext)
					} else if g.Reference.Name != d.Extends.Name || int(g.Reference.Index) != f.IncludeIndex(d.Extends.File) {
						c.add("service.reference.value", w, "want {%s,%d} got {%s,%d}", d.Extends.Name, f.IncludeIndex(d.Extends.File), g.Reference.Name, g.Reference.Index)
					}
				} else if g.Reference != nil {
					c.add("service.reference.unexpected", w, "Reference set for a local/absent base: %v", g.Reference)
				}
			}
			c.anns("service", w, d.Ann, g.Annotations)
			if len(g.Functions) != len(d.Funcs) {
				c.add("service.function.count", w, "want %d got %d", len(d.Funcs), len(g.Functions))
				continue
			}
			for j, fn := range d.Funcs {
				gf := g.Functions[j]
				fw := w + "." + fn.Name
				if gf.Name != fn.Name {
					c.add("function.name", fw, "got %q", gf.Name)
					continue
				}
				if gf.Oneway != fn.Oneway {
					c.add("function.oneway", fw, "want %v got %v", fn.Oneway, gf.Oneway)
				}
				if gf.Void != fn.Void {
					c.add("function.void", fw, "want %v got %v", fn.Void, gf.Void)
				}
				if !fn.Void {
					c.typ("function.return", fw, fn.Ret, gf.FunctionType)
				}
				c.fields("function.arg", fw, nil, "args", fn.Args, gf.Arguments)
				c.fields("function.throws", fw, nil, "throws", fn.Throws, gf.Throws)
				c.anns("function", fw, fn.Ann, gf.Annotations)
			}
		}
	}
}
