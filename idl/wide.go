package idl

import "fmt"

// AddWideRequired appends to the main file a struct with exactly nReq required fields (scalars of varying
// types, ids in declaration order) interleaved with a few optional / default ones.  Code generators keep one
// "is set" bit per required field and switch representation at word boundaries (8, 16, ...): programs drawn
// field by field hardly ever reach those sizes.
func AddWideRequired(p *Program, nReq int, pick func(n int) int) *Def {
	f := p.Main()
	name := fmt.Sprintf("Wide%d", nReq)
	for _, d := range f.Defs {
		if d.Name == name {
			return d
		}
	}
	d := &Def{Kind: KStruct, Name: name, File: f}
	types := []string{"i32", "bool", "string", "i64", "double", "byte", "i16", "binary"}
	id := int32(0)
	for i := 0; i < nReq; i++ {
		if pick(5) == 0 { // a non-required field in between: bit index and field index drift apart
			id++
			req := []Req{ReqOptional, ReqDefault}[pick(2)]
			d.Fields = append(d.Fields, &Field{ID: id, ExplicitID: true, Req: req, Type: &Type{Name: types[pick(len(types))]}, Name: fmt.Sprintf("o%d", id)})
		}
		id++
		d.Fields = append(d.Fields, &Field{ID: id, ExplicitID: true, Req: ReqRequired, Type: &Type{Name: types[pick(len(types))]}, Name: fmt.Sprintf("r%d", id)})
	}
	f.Defs = append(f.Defs, d)
	return d
}
