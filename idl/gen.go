package idl

import (
	"fmt"
	"math"
	"strconv"
	"strings"

	"verif/vlib"
)

// GenOpts are the knobs of the program generator.
type GenOpts struct {
	Files                  int  // number of files (1..5)
	Structs                int  // struct-likes per file (approx.)
	Services               bool // generate services
	Consts                 bool // generate constants
	Defaults               bool // generate field defaults
	Annotations            int  // 0 none, 1 some, 2 everywhere (incl. types, namespaces, args, throws)
	NameStress             int  // 0 plain names, 1 naming-style stress, 2 collision pools
	TypeAnn                bool // annotations and cpp_type on type expressions
	OddIDs                 bool // negative / implicit / sparse field ids
	HexIDs                 bool // hex/octal spelled field ids
	ExpDoubles             bool // doubles with exponents
	HardDoubles            bool // doubles that need 17 significant digits, subnormals, the largest finite value
	StructKeys             bool // struct-typed map keys
	Recursion              bool // recursive types through optional fields / containers
	MaxDepth               int  // container nesting (default 3)
	FieldsMax              int  // max fields per struct (default 10)
	Unions                 bool
	Exceptions             bool
	CppIncludes            bool
	SameBase               bool // two files with the same base name in different directories
	ExtraNS                bool // namespaces for other languages / '*'
	DupNS                  bool // with ExtraNS: a language declared more than once (the AST keeps every line; only front-end checks use it)
	NoGoNS                 bool // some files without a go namespace
	OnlyWireable           bool // restrict to shapes the value generator and codecs handle (always true today)
	HardLiterals           bool // string literals with both quotes, backslashes, '&', '<', '#', unicode
	GoEscapes              bool // restrict backslash sequences in literals to escapes Go accepts (C06)
	ComposedLiterals       bool // literals concatenated from hostile fragments (C17): quotes after backslashes, HTML entities, '#', ';'
	StructConsts           bool // constants / defaults of struct type
	EmptyDefs              bool // empty structs / services / enums
	UnusedIncl             bool // includes nothing refers to
	BigFieldIDs            bool // ids > 63 and up to 32767
	Preserve               bool // some struct-likes carry @preserve
	UnionDefault           bool // at most one default in a union
	TypedefChains          bool // extra typedef-of-typedef chains (crossing files)
	PrefixNames            bool // definitions whose name equals an include prefix
	PrefixEnums            bool // with PrefixNames: some of them are enums used as Prefix.VALUE in a constant (the include stays unused)
	TypedefContainerConsts bool // non-empty list/map literals whose declared type is a typedef of a container (crashes the Go backend: known finding)
	ForeignStructIdents    bool // identifiers inside literals of structs defined in another file (Go backend resolves them in the wrong file: rejected)
	SameNS                 bool // some files share one go namespace (one Go package from several IDL files)
	Sparse                 bool // files randomly lack whole definition kinds (no enum / no const / no service / no typedef)
	PkgClash               bool // two included files whose go namespaces end in the same word (import alias needed)
	TypedefOnlyStructs     bool // typedefs only of struct-likes (for use_type_alias=false, which breaks typedef'd scalars)
	MoreServices           bool // 2-3 services per file
	ArgDefaults            bool // default values on function arguments
	RootRelativeIncludes   bool // files in sub-directories write their includes relative to the program root (needs -i <root>)
	SameBaseClash          bool // with SameBase: the second same-named include also defines a name of the first (the first include wins)
	DottedFiles            bool // file names with a dot in the stem (base.v1.thrift next to base.thrift): include prefixes with dots
	ThrowNamePool          bool // throws fields are named from a tiny pool, so that different exception types meet under one name (C07)
	TypedefEnumSel         bool // enum values selected through a typedef (Typedef.VALUE): accepted by the analyser, rejected by the Go backend
}

// DefaultOpts is a broad configuration valid for the Go backend.
func DefaultOpts() GenOpts {
	return GenOpts{Files: 3, Structs: 4, Services: true, Consts: true, Defaults: true, Annotations: 1, NameStress: 1,
		OddIDs: true, StructKeys: true, Recursion: true, MaxDepth: 3, FieldsMax: 10, Unions: true, Exceptions: true,
		StructConsts: true, EmptyDefs: true, UnusedIncl: true, BigFieldIDs: true, GoEscapes: true}
}

type gen struct {
	rng     *vlib.Rng
	o       GenOpts
	p       *Program
	used    map[*File]map[string]bool // global names per file
	deck    int                       // round-robin coverage deck position
	uid     int
	depth   int
	noIdent int
	nest    int
}

var typeWords = []string{"User", "Item", "Order", "Req", "Resp", "Node", "Tree", "Info", "Meta", "Pair", "Entry", "Cfg", "Msg", "Evt", "Doc", "Blob"}
var stressTypeWords = []string{"user_info", "HTTPReq", "url_map", "item2d", "Api_v1", "x_data", "UUIDRef", "my_URL", "jsonRPC", "id_set", "Tls_cfg", "a1_b2"}
var collideTypeWords = []string{"user_info", "UserInfo", "User_Info", "Item_", "item", "ITEM", "get_args", "put_result", "New_thing", "NewThing", "call_Args", "foo_Result", "Error", "String_", "ReadReq", "write_out"}
var fieldWords = []string{"id", "name", "count", "flag", "data", "items", "tags", "extra", "left", "right", "value", "kind", "ts", "score", "owner", "parent", "attrs", "body", "code", "ratio"}
var stressFieldWords = []string{"user_id", "userName", "URL", "http_code", "x1", "a_b_c", "Id", "uuid", "json_body", "ip_addr", "TLS", "trail_", "Mixed_Case_name"}
var collideFieldWords = []string{"user_id", "userId", "UserID", "User_Id", "Name", "NAME", "name_", "get_name", "GetName", "is_set_name", "read", "write", "string", "error", "get_x", "is_set_x", "deep_equal", "type", "func", "range", "p", "err", "ctx", "result", "args", "success", "field_mask", "default",
	"Type", "Range", "Map", "Default", "Func", "Select", "Go", "Var", "Chan", "Interface", "Package", "Return"} // Go keywords once the first letter is lowered (argument names)
var funcWords = []string{"get", "put", "list_all", "ping", "query", "update", "remove", "echo", "Scan", "fetchMany", "do_it", "run2"}
var collideFuncWords = []string{"get_item", "getItem", "GetItem", "Ping", "PING", "process", "send", "recv", "close", "read", "write", "string", "type", "client", "Get_args"}
var enumWords = []string{"Color", "Mode", "State", "Level", "kind_e", "Op", "Phase"}
var enumValWords = []string{"RED", "GREEN", "BLUE", "ON", "OFF", "LOW", "MID", "HIGH", "first", "second", "Third", "UNKNOWN", "A", "B", "C", "alpha_1"}
var constWords = []string{"MAX", "MIN", "default_name", "Pi", "LIMITS", "table", "K1", "cfg_map", "EMPTY", "names", "HTTP_PORT", "version_id"}

// reserved words of the IDL that cannot be identifiers
var idlReserved = map[string]bool{"bool": true, "byte": true, "i8": true, "i16": true, "i32": true, "i64": true, "double": true, "string": true, "binary": true,
	"const": true, "oneway": true, "typedef": true, "map": true, "set": true, "list": true, "void": true, "throws": true, "exception": true, "extends": true,
	"service": true, "struct": true, "union": true, "enum": true, "include": true, "cpp_include": true, "namespace": true, "cpp_type": true, "required": true, "optional": true, "true": true, "false": true}

func (g *gen) pickWord(pool, stress, collide []string, level int) string {
	all := append([]string{}, pool...)
	if level >= 1 {
		all = append(all, stress...)
	}
	if level >= 2 {
		all = append(all, collide...)
	}
	return all[g.rng.Intn(len(all))]
}

func (g *gen) globalName(f *File, pool, stress, collide []string) string {
	for try := 0; ; try++ {
		w := g.pickWord(pool, stress, collide, g.o.NameStress)
		if try > 3 {
			g.uid++
			w = fmt.Sprintf("%s%d", w, g.uid)
		}
		if idlReserved[w] || g.used[f][w] || g.used[f]["\x00other:"+normName(w)] {
			continue
		}
		// avoid names equal to an include prefix of this file or of any file (C05 handles that separately)
		g.used[f][w] = true
		return w
	}
}

func normName(w string) string { return strings.ToLower(strings.ReplaceAll(w, "_", "")) }

func (g *gen) localName(used map[string]bool, pool, stress, collide []string) string {
	for try := 0; ; try++ {
		w := g.pickWord(pool, stress, collide, g.o.NameStress)
		if try > 3 {
			g.uid++
			w = fmt.Sprintf("%s%d", w, g.uid)
		}
		key := strings.ToLower(strings.ReplaceAll(w, "_", ""))
		if g.o.NameStress >= 2 {
			key = w // names that collide after Go naming (foo_bar / fooBar / FooBar) are wanted
		}
		if idlReserved[w] || used[key] {
			continue
		}
		used[key] = true
		return w
	}
}

func (g *gen) anns(site string) []AnnPair {
	lvl := g.o.Annotations
	if lvl == 0 {
		return nil
	}
	heavy := lvl >= 2
	switch site {
	case "type", "ns", "arg", "throw":
		if !heavy {
			return nil
		}
	}
	if !(heavy && g.rng.Chance(1, 2) || g.rng.Chance(1, 6)) {
		return nil
	}
	keys := []string{"doc", "api.tag", "owner", "x.y.z", "k1", "deprecated"}
	n := g.rng.Range(1, 4)
	var out []AnnPair
	for i := 0; i < n; i++ {
		k := keys[g.rng.Intn(len(keys))]
		if i > 0 && g.rng.Chance(1, 3) {
			k = out[g.rng.Intn(len(out))].K // repeated key
		}
		out = append(out, AnnPair{k, g.literalText(true)})
	}
	return out
}

// literalText draws the characters of a string literal (as the AST must hold them).
func (g *gen) literalText(ann bool) string {
	simple := []string{"", "a", "hello world", "v1.2", "x,y;z", "a=b", "(paren)", "{brace}", "[1]", "üñí", "日本", "tab\\there", "semi;colon", "sp  ace", "//notcomment", "/*x*/", "#hash"}
	hard := []string{"it's", `say "hi"`, `both ' and "`, "a&b", "a&amp;b", "<tag>", "x<y>z", `back\\slash`, `\\n`, "&lt;", "100%", "a\\\\b", "q&a&lt", `'`, `"`}
	pool := simple
	if g.o.HardLiterals {
		pool = append(append([]string{}, simple...), hard...)
	}
	s := pool[g.rng.Intn(len(pool))]
	if g.o.ComposedLiterals && g.rng.Chance(1, 2) {
		s = g.composedLiteral()
	}
	if g.o.GoEscapes {
		// keep only backslash sequences Go accepts: \t \n \\ ; drop anything else
		s = strings.ReplaceAll(s, `\\n`, `\n`)
	}
	return s
}

// composedLiteral concatenates fragments so that every neighbouring pair of hostile characters occurs:
// a quote after a backslash pair, an over-escaped quote (backslash kept in the text, only writable inside
// the other quote kind), HTML entities, '#', ';', '&'. The text never contains over-escaped quotes of
// both kinds (no source text can produce that).
func (g *gen) composedLiteral() string {
	atoms := []string{"a", "Z", "0", " ", `"`, `'`, "&", "<", ">", "#", ";", "\\\\", "\\t", "\\n", "&amp;", "&#34;", "&quot;", "&lt;", "&#39;", "##", "%", "=", ",", "(", ")", "é", "/", "//", "/*", "*/", "##34;", "#OUTQUOTES", "&#x26;",
		"\\\\\"", "\\\\'", "\\\\\\\\\""} // a quote after one / two backslash pairs: written "\\\"" in its own quote kind
	over := ""
	if g.rng.Chance(1, 4) {
		over = []string{"\\\"", "\\'"}[g.rng.Intn(2)]
		if g.o.GoEscapes {
			over = "\\\"" // \' is no escape sequence of a Go string
		}
	}
	n := g.rng.Range(1, 6)
	var sb strings.Builder
	for i := 0; i < n; i++ {
		if over != "" && g.rng.Chance(1, 3) {
			sb.WriteString(over)
			continue
		}
		sb.WriteString(atoms[g.rng.Intn(len(atoms))])
	}
	if strings.HasSuffix(sb.String(), "\\") {
		sb.WriteString("z") // the grammar reads a backslash before the closing quote as an escape: such a text cannot be written
	}
	return sb.String()
}

// ---------- type deck ----------

type typeMaker func(g *gen, f *File, depth int) *Type

func base(name string) *Type { return &Type{Name: name} }

func (g *gen) refTo(f *File, d *Def) *Type {
	return &Type{Name: d.Name, Ref: d, Qual: d.File != f}
}

// visible returns definitions of the given kinds visible from f (local + directly included files).
func (g *gen) visible(f *File, pred func(*Def) bool) []*Def {
	var out []*Def
	for _, d := range f.Defs {
		if pred(d) {
			out = append(out, d)
		}
	}
	for _, inc := range f.Includes {
		for _, d := range inc.File.Defs {
			if pred(d) {
				out = append(out, d)
			}
		}
	}
	return out
}

func (g *gen) pickDef(f *File, pred func(*Def) bool) *Def {
	v := g.visible(f, pred)
	if len(v) == 0 {
		return nil
	}
	// prefer foreign definitions half of the time to exercise cross-file references
	if g.rng.Bool() {
		var foreign []*Def
		for _, d := range v {
			if d.File != f {
				foreign = append(foreign, d)
			}
		}
		if len(foreign) > 0 {
			return foreign[g.rng.Intn(len(foreign))]
		}
	}
	return v[g.rng.Intn(len(v))]
}

func isKeyable(t *Type, structKeys bool) bool {
	switch t.Cat() {
	case "bool", "i8", "i16", "i32", "i64", "string", "binary", "enum", "double":
		return true
	case "struct":
		return structKeys
	}
	return false
}

// genType draws a type expression usable in file f.
func (g *gen) genType(f *File, depth int) *Type {
	// the round-robin deck drives only outermost type expressions (so that every shape occurs
	// as a field/typedef/argument type); nested positions draw at random
	var k int
	if g.nest == 0 {
		g.deck++
		k = g.deck % 24
	} else {
		k = g.rng.Intn(24)
	}
	g.nest++
	defer func() { g.nest-- }()
	if depth <= 0 && k >= 12 && k <= 19 {
		k = g.rng.Intn(12)
	}
	var t *Type
	switch k {
	case 0, 1, 2, 3, 4, 5, 6, 7, 8:
		t = base(BaseTypes[k])
	case 9: // enum
		if d := g.pickDef(f, func(d *Def) bool { return d.Kind == KEnum && len(d.EnumVals) > 0 }); d != nil {
			t = g.refTo(f, d)
		}
	case 10, 20: // struct-like
		if d := g.pickDef(f, func(d *Def) bool {
			return d.Kind == KStruct || d.Kind == KUnion && len(d.Fields) > 0 || d.Kind == KException && k == 20
		}); d != nil {
			t = g.refTo(f, d)
		}
	case 11, 21, 22: // typedef
		if g.o.TypedefOnlyStructs {
			break // use_type_alias=false: a typedef'd struct used as a type does not compile (known finding); typedefs stay unused
		}
		if d := g.pickDef(f, func(d *Def) bool { return d.Kind == KTypedef }); d != nil {
			t = g.refTo(f, d)
		}
	case 12, 13:
		t = &Type{Name: "list", Elem: g.genType(f, depth-1)}
	case 14:
		t = &Type{Name: "set", Elem: g.genSetElem(f, depth-1)}
	case 15, 16, 17, 18, 19:
		key := g.genKey(f)
		t = &Type{Name: "map", Key: key, Elem: g.genType(f, depth-1)}
	case 23:
		t = base([]string{"i32", "string", "i64", "bool"}[g.rng.Intn(4)])
	}
	if t == nil {
		t = base(BaseTypes[g.rng.Intn(len(BaseTypes))])
	}
	if g.o.TypeAnn {
		t.Ann = g.anns("type")
		if t.IsContainer() && g.rng.Chance(1, 5) {
			t.CppType = "std::x<" + t.Name + ">"
		}
	}
	return t
}

func (g *gen) genSetElem(f *File, depth int) *Type {
	for i := 0; i < 8; i++ {
		t := g.genType(f, depth)
		c := t.Cat()
		if c == "map" || c == "double" && false {
			continue
		}
		return t
	}
	return base("i32")
}

func (g *gen) genKey(f *File) *Type {
	for i := 0; i < 12; i++ {
		t := g.genType(f, 0)
		if !isKeyable(t, g.o.StructKeys) || t.Cat() == "double" {
			continue
		}
		if t.Cat() == "struct" {
			// struct keys: only plain structs without recursion trouble
			r := t.Resolve()
			if r.Ref.Kind != KStruct {
				continue
			}
		}
		return t
	}
	return base([]string{"string", "i32", "i64"}[g.rng.Intn(3)])
}

// ---------- definitions ----------

func (g *gen) genEnum(f *File) *Def {
	d := &Def{Kind: KEnum, File: f, Name: g.globalName(f, enumWords, nil, nil), Ann: g.anns("def")}
	n := g.rng.Range(1, 6)
	if g.o.EmptyDefs && g.rng.Chance(1, 15) {
		n = 0
	}
	used := map[string]bool{}
	usedV := map[int64]bool{}
	next := int64(0)
	for i := 0; i < n; i++ {
		ev := &EnumVal{Name: g.localName(used, enumValWords, nil, nil), Ann: g.anns("enumval")}
		if g.rng.Chance(1, 2) {
			ev.Explicit = true
			switch g.rng.Intn(6) {
			case 0:
				ev.Value = next + int64(g.rng.Range(1, 5))
			case 1:
				ev.Value = int64(g.rng.Range(-20, -1))
			case 2:
				ev.Value = int64(g.rng.Range(100, 100000))
			case 3:
				ev.Value = []int64{math.MaxInt32, math.MinInt32, 0, 1}[g.rng.Intn(4)]
			default:
				ev.Value = next
			}
			ev.Spell = g.rng.Intn(4)
		} else {
			ev.Value = next
		}
		if usedV[ev.Value] || ev.Value > math.MaxInt32 {
			// keep numbers unique
			ev.Explicit = true
			for usedV[ev.Value] || ev.Value > math.MaxInt32 {
				ev.Value = int64(g.rng.Range(200000, 900000))
			}
		}
		usedV[ev.Value] = true
		next = ev.Value + 1
		d.EnumVals = append(d.EnumVals, ev)
	}
	return d
}

func (g *gen) genTypedef(f *File) *Def {
	d := &Def{Kind: KTypedef, File: f, Ann: g.anns("def")}
	d.Type = g.genType(f, g.o.MaxDepth-1)
	if g.o.TypedefOnlyStructs {
		sd := g.pickDef(f, func(x *Def) bool { return x.Kind == KStruct })
		if sd == nil {
			return nil
		}
		d.Type = g.refTo(f, sd)
	}
	d.Name = g.globalName(f, []string{"ID", "Name", "Tags", "Index", "Alias", "Map1", "Ref", "Raw"}, []string{"user_id", "URLList", "id_map"}, nil)
	return d
}

func (g *gen) genFields(f *File, d *Def, kind string, n int) []*Field {
	var out []*Field
	used := map[string]bool{}
	usedID := map[int32]bool{}
	prev := int32(0)
	for i := 0; i < n; i++ {
		fl := &Field{Name: g.localName(used, fieldWords, stressFieldWords, collideFieldWords)}
		if kind == "throws" && g.o.ThrowNamePool {
			for _, nm := range []string{"e", "err", "ex", "exc"} {
				if !used[normName(nm)] && !used[nm] {
					delete(used, normName(fl.Name))
					delete(used, fl.Name)
					fl.Name = nm
					used[nm] = true
					break
				}
			}
		}
		for kind == "throws" && normName(fl.Name) == "success" { // collides with the synthesized result field (known finding)
			fl.Name = g.localName(used, fieldWords, stressFieldWords, nil)
		}
		// id: explicit, or implicit = previous + 1 (first = 1)
		fl.ExplicitID = true
		fl.ID = prev + 1
		if g.o.OddIDs {
			switch g.rng.Intn(10) {
			case 0:
				fl.ExplicitID = false
			case 1:
				fl.ID = int32(g.rng.Range(-30, -1))
			case 2:
				fl.ID = prev + 1 + int32(g.rng.Range(1, 20))
			case 3:
				if g.o.BigFieldIDs {
					fl.ID = int32([]int{63, 64, 65, 127, 128, 255, 256, 1000, 32767}[g.rng.Intn(9)])
				}
			}
		}
		if !fl.ExplicitID && (usedID[prev+1] || prev+1 <= 0 || prev+1 > 32767) {
			fl.ExplicitID = true
		}
		for fl.ExplicitID && (usedID[fl.ID] || fl.ID == 0 || fl.ID > 32767) {
			fl.ID = int32(g.rng.Range(1, 3000))
		}
		if g.o.HexIDs && fl.ExplicitID && fl.ID > 0 {
			fl.IDSpell = g.rng.Intn(4)
		}
		usedID[fl.ID] = true
		prev = fl.ID
		// requiredness
		switch kind {
		case "struct", "exception":
			fl.Req = Req(g.deck % 3)
			if g.rng.Chance(1, 3) {
				fl.Req = Req(g.rng.Intn(3))
			}
		case "union":
			fl.Req = ReqDefault
			if g.rng.Chance(1, 3) {
				fl.Req = ReqOptional
			}
		case "args":
			fl.Req = ReqDefault
			if g.rng.Chance(1, 6) {
				fl.Req = ReqRequired
			}
		case "throws":
			fl.Req = ReqDefault
		}
		// type
		switch kind {
		case "throws":
			ex := g.pickDef(f, func(x *Def) bool {
				if x.Kind != KException {
					return false
				}
				for _, prev := range out {
					if prev.Type.Resolve().Ref == x {
						return false // two throws of one exception type make an unreachable (and uncompilable) case
					}
				}
				return true
			})
			if ex == nil {
				continue
			}
			fl.Type = g.refTo(f, ex)
		default:
			fl.Type = g.genType(f, g.o.MaxDepth)
			if g.o.Recursion && d != nil && kind == "struct" && g.rng.Chance(1, 8) {
				switch g.rng.Intn(3) {
				case 0:
					fl.Type = g.refTo(f, d)
					fl.Req = ReqOptional
				case 1:
					fl.Type = &Type{Name: "list", Elem: g.refTo(f, d)}
				case 2:
					fl.Type = &Type{Name: "map", Key: base("string"), Elem: g.refTo(f, d)}
				}
			}
			// a non-optional field of struct type that (transitively) contains d by value is fine in Go (pointers),
			// but a required self reference can never be constructed: keep direct self references optional.
		}
		if kind == "args" || kind == "throws" {
			fl.Ann = g.anns("arg")
		} else {
			fl.Ann = g.anns("field")
		}
		out = append(out, fl)
	}
	return out
}

func (g *gen) genStructLike(f *File, kind DefKind) *Def {
	d := &Def{Kind: kind, File: f, Ann: g.anns("def")}
	d.Name = g.globalName(f, typeWords, stressTypeWords, collideTypeWords)
	n := g.rng.Range(1, g.o.FieldsMax)
	if g.o.EmptyDefs && g.rng.Chance(1, 12) && kind != KUnion {
		n = 0
	}
	if kind == KUnion {
		n = g.rng.Range(1, 5)
	}
	d.Fields = g.genFields(f, d, kind.String(), n)
	if g.o.Preserve && g.rng.Chance(1, 6) {
		d.Preserve = true
	}
	return d
}

// funcName draws a function name that is unique in the service and its bases after Go naming.
func (g *gen) funcName(used map[string]bool) string {
	for try := 0; ; try++ {
		w := g.pickWord(funcWords, nil, collideFuncWords, g.o.NameStress)
		if try > 3 {
			g.uid++
			w = fmt.Sprintf("%s%d", w, g.uid)
		}
		if idlReserved[w] || used[normName(w)] {
			continue
		}
		used[normName(w)] = true
		return w
	}
}

func (g *gen) genService(f *File) *Def {
	d := &Def{Kind: KService, File: f, Ann: g.anns("def")}
	d.Name = g.globalName(f, []string{"Svc", "Api", "Store", "Gateway", "Calc"}, []string{"user_service", "HTTPApi"}, []string{"Client_x", "Processor_y"})
	if base := g.pickDef(f, func(x *Def) bool { return x.Kind == KService && x != d }); base != nil && g.rng.Chance(1, 2) {
		d.Extends = base
	}
	n := g.rng.Range(1, 5)
	if g.o.EmptyDefs && g.rng.Chance(1, 10) {
		n = 0
	}
	used := map[string]bool{}
	// names of inherited functions must not be redefined
	for b := d.Extends; b != nil; b = b.Extends {
		for _, fn := range b.Funcs {
			used[strings.ToLower(strings.ReplaceAll(fn.Name, "_", ""))] = true
		}
	}
	for i := 0; i < n; i++ {
		fn := &Func{Name: g.funcName(used), Ann: g.anns("func")}
		switch g.rng.Intn(6) {
		case 0:
			fn.Oneway, fn.Void = true, true
		case 1:
			fn.Void = true
		default:
			fn.Ret = g.genType(f, g.o.MaxDepth)
		}
		fn.Args = g.genFields(f, nil, "args", g.rng.Intn(5))
		if g.o.ArgDefaults {
			for _, a := range fn.Args {
				if g.rng.Chance(1, 4) {
					a.Default = g.genValue(f, a.Type, 1, nil)
				}
			}
		}
		if !fn.Oneway && g.o.Exceptions {
			fn.Throws = g.genFields(f, nil, "throws", g.rng.Intn(3))
		}
		d.Funcs = append(d.Funcs, fn)
	}
	return d
}

// ---------- values ----------

func sameType(a, b *Type) bool {
	a, b = a.Resolve(), b.Resolve()
	if a.Ref != nil || b.Ref != nil {
		return a.Ref == b.Ref
	}
	if a.Cat() != b.Cat() {
		return false
	}
	switch a.Cat() {
	case "list", "set":
		return sameType(a.Elem, b.Elem)
	case "map":
		return sameType(a.Key, b.Key) && sameType(a.Elem, b.Elem)
	}
	return true
}

func intRange(cat string) (int64, int64) {
	switch cat {
	case "i8":
		return math.MinInt8, math.MaxInt8
	case "i16":
		return math.MinInt16, math.MaxInt16
	case "i32":
		return math.MinInt32, math.MaxInt32
	}
	return math.MinInt64, math.MaxInt64
}

// genValue draws an initializer for type t usable in file f.  exclude is the constant being
// defined (no self reference).  Returns nil when no finite initializer exists (recursion).
func (g *gen) genValue(f *File, t *Type, depth int, exclude *Def) *Value {
	// reference to an existing constant of the same type
	refChance := 6
	if g.o.PkgClash {
		refChance = 3
	}
	if depth < 3 && g.noIdent == 0 && g.rng.Chance(1, refChance) {
		if c := g.pickDef(f, func(d *Def) bool {
			return d.Kind == KConst && d != exclude && d.Value != nil && sameType(d.Type, t) && constDependsOn(d, exclude) == false
		}); c != nil {
			id := c.Name
			if c.File != f {
				id = c.File.Prefix() + "." + c.Name
			}
			return &Value{Kind: VIdent, Ident: id, ToConst: c}
		}
	}
	r := t.Resolve()
	cat := r.Cat()
	switch cat {
	case "bool":
		switch g.rng.Intn(4) {
		case 0:
			return &Value{Kind: VIdent, Ident: "true", BoolLit: 1}
		case 1:
			return &Value{Kind: VIdent, Ident: "false", BoolLit: 2}
		case 2:
			return &Value{Kind: VInt, Int: 1}
		}
		return &Value{Kind: VInt, Int: 0}
	case "i8", "i16", "i32", "i64":
		lo, hi := intRange(cat)
		var v int64
		switch g.rng.Intn(6) {
		case 0:
			v = lo
		case 1:
			v = hi
		case 2:
			v = 0
		case 3:
			v = int64(g.rng.Range(-100, 100))
		default:
			v = int64(g.rng.Uint64())
			if v < lo || v > hi {
				v = lo + int64(g.rng.Uint64()%uint64(hi-lo))
			}
		}
		return &Value{Kind: VInt, Int: v, Spell: g.rng.Intn(4)}
	case "double":
		if g.rng.Chance(1, 4) { // an integer where a double is declared
			return &Value{Kind: VInt, Int: int64(g.rng.Range(-1000, 1000)), Spell: 0}
		}
		pool := []string{"1.5", "-0.25", "0.0", "3.14159", "100.0", ".5", "-.125", "+2.5", "123456.789", "0.000001", "1234567890.5"}
		if g.o.ExpDoubles {
			pool = append(pool, "1e3", "1.5e10", "2.5E-3", "-1e-7", "6.02e23", "1E0", ".5e1", "9.9e+2")
		}
		if g.o.HardDoubles {
			pool = append(pool, "0.30000000000000004", "1e-20", "4.9e-324", "1.7976931348623157e308", "123456789.12345679", "-2.2250738585072014e-308", "9007199254740993.0", "0.1", "1e22", "1e23", "-9223372036854775808.0", "9223372036854775807.0", "18446744073709551616.0")
		}
		txt := pool[g.rng.Intn(len(pool))]
		d, _ := strconv.ParseFloat(txt, 64)
		return &Value{Kind: VDouble, Dbl: d, DblTxt: txt}
	case "string", "binary":
		return &Value{Kind: VString, Str: g.literalText(false)}
	case "enum":
		e := r.Ref
		if len(e.EnumVals) == 0 {
			return &Value{Kind: VInt, Int: 0}
		}
		ev := e.EnumVals[g.rng.Intn(len(e.EnumVals))]
		if g.rng.Chance(1, 4) || g.noIdent > 0 {
			return &Value{Kind: VInt, Int: ev.Value, ToEnum: e, ToEnumVal: ev} // enum by number
		}
		// selector: the enum itself, or a typedef of it when the type was written through one
		sel := e.Name
		selFile := e.File
		var via *Def
		if g.o.TypedefEnumSel && t.Ref != nil && t.Ref.Kind == KTypedef && g.rng.Bool() {
			via = t.Ref
			sel = via.Name
			selFile = via.File
		}
		id := sel + "." + ev.Name
		if selFile != f {
			if f.IncludeIndex(selFile) < 0 {
				// the enum lives in a file f does not include directly (reached through a typedef): by number
				return &Value{Kind: VInt, Int: ev.Value, ToEnum: e, ToEnumVal: ev}
			}
			id = selFile.Prefix() + "." + id
		}
		return &Value{Kind: VIdent, Ident: id, ToEnum: e, ToEnumVal: ev, ViaType: via}
	case "list", "set":
		n := g.rng.Intn(4)
		if depth > 2 {
			n = g.rng.Intn(2)
		}
		if t.Ref != nil && !g.o.TypedefContainerConsts {
			n = 0
		}
		v := &Value{Kind: VList, List: []*Value{}}
		seen := map[string]bool{}
		for i := 0; i < n; i++ {
			e := g.genValue(f, r.Elem, depth+1, exclude)
			if e == nil {
				continue
			}
			if cat == "set" {
				k := g.evalKey(e, r.Elem)
				if seen[k] {
					continue
				}
				seen[k] = true
			}
			v.List = append(v.List, e)
		}
		return v
	case "map":
		n := g.rng.Intn(4)
		if depth > 2 {
			n = g.rng.Intn(2)
		}
		if t.Ref != nil && !g.o.TypedefContainerConsts {
			n = 0
		}
		v := &Value{Kind: VMap, Map: [][2]*Value{}}
		seen := map[string]bool{}
		for i := 0; i < n; i++ {
			k := g.genValue(f, r.Key, depth+1, exclude)
			e := g.genValue(f, r.Elem, depth+1, exclude)
			if k == nil || e == nil {
				continue
			}
			ks := g.evalKey(k, r.Key)
			if seen[ks] {
				continue
			}
			seen[ks] = true
			v.Map = append(v.Map, [2]*Value{k, e})
		}
		return v
	case "struct", "union", "exception":
		if !g.o.StructConsts || depth > 2 {
			return nil
		}
		sd := r.Ref
		v := &Value{Kind: VMap, Map: [][2]*Value{}}
		if sd.File != f && !g.o.ForeignStructIdents {
			g.noIdent++
			defer func() { g.noIdent-- }()
		}
		fields := sd.Fields
		if sd.Kind == KUnion {
			if len(fields) == 0 {
				return nil
			}
			fields = []*Field{fields[g.rng.Intn(len(fields))]}
		}
		for _, fl := range fields {
			// A literal that omits a non-optional struct-typed field yields a Go object with a nil
			// pointer there (the Go backend renders &T{...}, not NewT()): such objects cannot be
			// written.  Literals always mention those fields.
			mustHave := sd.Kind != KUnion && fl.Req != ReqOptional && isStructy(fl.Type) && WireCat(fl.Type) == "struct"
			if sd.Kind != KUnion && fl.Req != ReqRequired && !mustHave && g.rng.Chance(1, 3) {
				continue
			}
			if fl.Type.Resolve().Ref == sd {
				if mustHave {
					return nil
				}
				continue
			}
			fv := g.genValue(f, fl.Type, depth+1, exclude)
			if fv == nil {
				if sd.Kind == KUnion || mustHave {
					return nil
				}
				continue
			}
			v.Map = append(v.Map, [2]*Value{{Kind: VString, Str: fl.Name}, fv})
		}
		return v
	}
	return nil
}

func hasRef(t *Type) bool {
	if t == nil {
		return false
	}
	return t.Ref != nil || hasRef(t.Key) || hasRef(t.Elem)
}

func constDependsOn(d, target *Def) bool {
	if target == nil {
		return false
	}
	var walk func(v *Value) bool
	walk = func(v *Value) bool {
		if v == nil {
			return false
		}
		if v.ToConst != nil {
			if v.ToConst == target {
				return true
			}
			return walk(v.ToConst.Value)
		}
		for _, e := range v.List {
			if walk(e) {
				return true
			}
		}
		for _, e := range v.Map {
			if walk(e[0]) || walk(e[1]) {
				return true
			}
		}
		return false
	}
	return walk(d.Value)
}

// evalKey gives a canonical string of the denotation of v (for uniqueness of set elements / map keys).
func (g *gen) evalKey(v *Value, t *Type) string {
	val, err := Eval(v, t)
	if err != nil {
		g.uid++
		return fmt.Sprintf("?%d", g.uid)
	}
	return val.Canon()
}

func (g *gen) genConst(f *File) *Def {
	d := &Def{Kind: KConst, File: f, Ann: g.anns("def")}
	for try := 0; try < 6; try++ {
		t := g.genType(f, g.o.MaxDepth-1)
		v := g.genValue(f, t, 0, d)
		if v != nil {
			d.Type, d.Value = t, v
			break
		}
	}
	if d.Value == nil {
		d.Type, d.Value = base("i32"), &Value{Kind: VInt, Int: 7}
	}
	d.Name = g.globalName(f, constWords, []string{"url_prefix", "MaxID"}, nil)
	return d
}

func (g *gen) addDefaults(f *File) {
	for _, d := range f.Defs {
		if !d.Kind.IsStructLike() {
			continue
		}
		unionHas := false
		for _, fl := range d.Fields {
			if !g.rng.Chance(1, 3) {
				continue
			}
			if d.Kind == KUnion && (unionHas || !g.o.UnionDefault) {
				continue
			}
			c := fl.Type.Cat()
			if (c == "struct" || c == "union" || c == "exception") && !g.o.StructConsts {
				continue
			}
			if v := g.genValue(f, fl.Type, 1, nil); v != nil {
				fl.Default = v
				unionHas = true
			}
		}
	}
}

// Generate draws a program.
func Generate(rng *vlib.Rng, o GenOpts) *Program {
	if o.MaxDepth == 0 {
		o.MaxDepth = 3
	}
	if o.FieldsMax == 0 {
		o.FieldsMax = 10
	}
	if o.Files <= 0 {
		o.Files = 1
	}
	if o.Structs <= 0 {
		o.Structs = 3
	}
	g := &gen{rng: rng, o: o, p: &Program{}, used: map[*File]map[string]bool{}}
	g.deck = rng.Intn(24)
	names := []string{"main.thrift", "base.thrift", "common/shared.thrift", "model.thrift", "deep/er/types.thrift"}
	if o.SameBase && o.Files >= 3 {
		names[2] = "sub/base.thrift"
	}
	if o.DottedFiles {
		names[3] = "base.v1.thrift"
		names[4] = "deep/er/types.v2.thrift"
		if o.Files >= 3 && !o.SameBase {
			names[2] = "base.v1.thrift"
			names[3] = "common/shared.thrift"
		}
	}
	for i := 0; i < o.Files; i++ {
		f := &File{Path: names[i%len(names)]}
		if i >= len(names) {
			f.Path = fmt.Sprintf("f%d.thrift", i)
		}
		g.p.Files = append(g.p.Files, f)
		g.used[f] = map[string]bool{}
	}
	sameNSPick := o.SameNS && rng.Chance(2, 3)
	sharedNS := map[*File]*File{}
	// build leaf files first
	for i := o.Files - 1; i >= 0; i-- {
		f := g.p.Files[i]
		// includes: subset of later files
		for j := i + 1; j < o.Files; j++ {
			if j == i+1 || rng.Chance(1, 2) || o.PkgClash && i == 0 && j <= 2 {
				inc := g.p.Files[j]
				if o.SameBase {
					// two includes with the same prefix in one file would make prefix.Name ambiguous only if names clash; keep names disjoint below
				}
				ip := relPath(f.Path, inc.Path)
				if o.RootRelativeIncludes && strings.Contains(f.Path, "/") {
					ip = inc.Path // found through the include search path, not next to the including file
				}
				f.Includes = append(f.Includes, &Include{File: inc, Path: ip})
			}
		}
		if len(f.Includes) > 1 && rng.Bool() {
			perm := rng.Perm(len(f.Includes))
			ni := make([]*Include, len(perm))
			for a, b := range perm {
				ni[a] = f.Includes[b]
			}
			f.Includes = ni
		}
		if o.CppIncludes && rng.Chance(1, 3) {
			f.CppIncludes = append(f.CppIncludes, "<vector>")
		}
		// namespaces
		nsName := "vf." + strings.ReplaceAll(strings.TrimSuffix(f.Path, ".thrift"), "/", ".")
		if nsName == "vf.main" {
			nsName = "vf.mainpkg"
		}
		if o.PkgClash && o.Files >= 3 && (i == 1 || i == 2) {
			nsName = fmt.Sprintf("vf.p%d.common", i)
		}
		if o.SameNS && i+1 < o.Files && sameNSPick {
			// share the package of the next file (which this file includes): global names must be disjoint
			next := g.p.Files[i+1]
			nsName = next.GoNamespace()
			for n := range g.used[next] {
				g.used[f][n] = true
				g.used[f]["\x00other:"+normName(n)] = true
			}
			sharedNS[f] = next
			sameNSPick = false
		}
		if !(o.NoGoNS && rng.Chance(1, 3)) {
			f.Namespaces = append(f.Namespaces, &Namespace{Lang: "go", Name: nsName, Ann: g.anns("ns")})
		}
		if o.ExtraNS {
			if rng.Bool() {
				f.Namespaces = append(f.Namespaces, &Namespace{Lang: "java", Name: "com.example." + f.Prefix(), Ann: g.anns("ns")})
			}
			if rng.Chance(1, 4) {
				f.Namespaces = append([]*Namespace{{Lang: "*", Name: "star." + f.Prefix()}}, f.Namespaces...)
			}
			if rng.Chance(1, 4) {
				f.Namespaces = append(f.Namespaces, &Namespace{Lang: "py", Name: "py_" + f.Prefix()})
			}
			if o.DupNS && rng.Chance(1, 3) {
				// a second declaration for a language that already has one (never go: the Go package stays what the model says)
				var again []*Namespace
				for _, ns := range f.Namespaces {
					if ns.Lang != "go" && rng.Bool() {
						again = append(again, &Namespace{Lang: ns.Lang, Name: ns.Name + ".again", Ann: g.anns("ns")})
					}
				}
				if len(again) == 0 {
					again = []*Namespace{{Lang: "rs", Name: "one_" + f.Prefix()}, {Lang: "rs", Name: "two_" + f.Prefix(), Ann: g.anns("ns")}}
				}
				f.Namespaces = append(f.Namespaces, again...)
			}
		}
		// names of included files' prefixes must not be shadowed... they may: not generated here
		// make global names of files with equal prefix disjoint
		for _, other := range g.p.Files {
			if other != f && other.Prefix() == f.Prefix() {
				for n := range g.used[other] {
					g.used[f][n] = true
				}
			}
		}
		// enums
		sparse := func() bool { return o.Sparse && rng.Chance(1, 3) }
		nEnums := rng.Range(1, 2)
		if sparse() {
			nEnums = 0
		}
		for k := nEnums; k > 0; k-- {
			f.Defs = append(f.Defs, g.genEnum(f))
		}
		// typedefs, struct-likes interleaved
		nS := o.Structs
		for k := 0; k < nS; k++ {
			if rng.Chance(1, 2) {
				if td := g.genTypedef(f); td != nil {
					f.Defs = append(f.Defs, td)
				}
			}
			kind := KStruct
			if o.Unions && k%4 == 2 {
				kind = KUnion
			}
			if o.Exceptions && k%4 == 3 {
				kind = KException
			}
			f.Defs = append(f.Defs, g.genStructLike(f, kind))
		}
		if !sparse() {
			if td := g.genTypedef(f); td != nil {
				f.Defs = append(f.Defs, td)
			}
		}
		if o.TypedefChains {
			for k := rng.Range(1, 4); k > 0; k-- {
				if td := g.pickDef(f, func(d *Def) bool { return d.Kind == KTypedef }); td != nil {
					d := &Def{Kind: KTypedef, File: f, Type: g.refTo(f, td)}
					d.Name = g.globalName(f, []string{"Chain", "Link", "Hop", "Via"}, nil, nil)
					f.Defs = append(f.Defs, d)
				}
			}
		}
		if o.TypedefEnumSel {
			// typedefs of (typedefs of) enums, preferably foreign ones, used as selectors of enum values
			for k := rng.Range(1, 3); k > 0; k-- {
				target := g.pickDef(f, func(d *Def) bool {
					if d.Kind == KEnum {
						return len(d.EnumVals) > 0
					}
					if d.Kind == KTypedef {
						r := d.Type.Resolve()
						return r.Ref != nil && r.Ref.Kind == KEnum && len(r.Ref.EnumVals) > 0
					}
					return false
				})
				if target == nil {
					continue
				}
				td := &Def{Kind: KTypedef, File: f, Type: g.refTo(f, target)}
				td.Name = g.globalName(f, []string{"ESel", "EnumAlias", "Kind2", "Sel"}, nil, nil)
				f.Defs = append(f.Defs, td)
				e := td.Type.Resolve().Ref
				ev := e.EnumVals[rng.Intn(len(e.EnumVals))]
				c := &Def{Kind: KConst, File: f, Type: g.refTo(f, td)}
				c.Value = &Value{Kind: VIdent, Ident: td.Name + "." + ev.Name, ToEnum: e, ToEnumVal: ev, ViaType: td}
				c.Name = g.globalName(f, []string{"SEL_A", "SEL_B", "picked", "chosen"}, nil, nil)
				f.Defs = append(f.Defs, c)
			}
		}
		if o.PrefixNames && len(f.Includes) > 0 && rng.Chance(1, 3) {
			pn := f.Includes[rng.Intn(len(f.Includes))].File.Prefix()
			if o.PrefixEnums && !g.used[f][pn] && !strings.Contains(pn, ".") && rng.Bool() {
				// enum X next to include "X.thrift": X.VALUE denotes the local enum member, not something of the include
				g.used[f][pn] = true
				e := &Def{Kind: KEnum, Name: pn, File: f}
				for k, nm := range []string{"PFX_LOW", "PFX_HIGH"} {
					e.EnumVals = append(e.EnumVals, &EnumVal{Name: nm, Explicit: true, Value: int64(k + 1)})
				}
				ev := e.EnumVals[rng.Intn(2)]
				c := &Def{Kind: KConst, File: f, Type: &Type{Name: pn, Ref: e},
					Value: &Value{Kind: VIdent, Ident: pn + "." + ev.Name, ToEnum: e, ToEnumVal: ev}}
				c.Name = g.globalName(f, []string{"PFX_PICK", "pfx_choice"}, nil, nil)
				f.Defs = append(f.Defs, e, c)
			} else if !g.used[f][pn] && !strings.Contains(pn, ".") { // a definition named "base.v1" is no realistic name

				g.used[f][pn] = true
				d := g.genStructLike(f, KStruct)
				delete(g.used[f], d.Name)
				d.Name = pn
				f.Defs = append(f.Defs, d)
			}
		}
		if o.Consts && !sparse() {
			for k := rng.Range(2, 6); k > 0; k-- {
				f.Defs = append(f.Defs, g.genConst(f))
			}
		}
		if o.PkgClash && o.Files >= 3 && i == 0 {
			// the main file refers to same-named constants of both colliding packages
			for _, c1 := range g.p.Files[1].DefsOf(KConst) {
				c2 := g.p.Files[2].Find(c1.Name)
				if c2 == nil || c2.Kind != KConst || hasRef(c1.Type) || hasRef(c2.Type) {
					continue
				}
				for _, c := range []*Def{c1, c2} {
					nc := &Def{Kind: KConst, File: f, Type: c.Type}
					nc.Value = &Value{Kind: VIdent, Ident: c.File.Prefix() + "." + c.Name, ToConst: c}
					nc.Name = g.globalName(f, []string{"from_a", "from_b", "picked_a", "picked_b"}, nil, nil)
					f.Defs = append(f.Defs, nc)
				}
			}
		}
		if o.PkgClash && o.Files >= 3 && i == 1 {
			// same constant names in the two packages whose names collide
			for _, c2 := range g.p.Files[2].DefsOf(KConst) {
				if g.used[f][c2.Name] || hasRef(c2.Type) {
					continue
				}
				nc := &Def{Kind: KConst, File: f, Name: c2.Name, Type: c2.Type}
				nc.Value = g.genValue(f, nc.Type, 0, nc)
				if nc.Value != nil {
					g.used[f][c2.Name] = true
					f.Defs = append(f.Defs, nc)
				}
			}
		}
		if o.Defaults {
			g.addDefaults(f)
		}
		if o.Services && !sparse() {
			nsv := rng.Range(1, 2)
			if o.MoreServices {
				nsv = rng.Range(2, 3)
			}
			for k := nsv; k > 0; k-- {
				sv := g.genService(f)
				if sharedNS[f] != nil && sv.Extends == nil {
					// a base service in another IDL file of the same Go package
					if b := sharedNS[f].DefsOf(KService); len(b) > 0 {
						ok := true
						var inherited []*Func
						for x := b[0]; x != nil; x = x.Extends {
							inherited = append(inherited, x.Funcs...)
						}
						for _, fn := range inherited {
							for _, fn2 := range sv.Funcs {
								if strings.EqualFold(strings.ReplaceAll(fn.Name, "_", ""), strings.ReplaceAll(fn2.Name, "_", "")) {
									ok = false
								}
							}
						}
						if ok {
							sv.Extends = b[0]
						}
					}
				}
				f.Defs = append(f.Defs, sv)
			}
		}
		// source order differs from dependency order
		perm := rng.Perm(len(f.Defs))
		nd := make([]*Def, len(perm))
		for a, b := range perm {
			nd[a] = f.Defs[b]
		}
		f.Defs = nd
	}
	if !o.UnusedIncl {
		PruneUnusedIncludes(g.p)
	}
	if o.SameBase && o.SameBaseClash {
		g.sameBaseClash()
	}
	if o.PrefixEnums {
		g.prefixEnumOnUnusedInclude()
	}
	return g.p
}

// prefixEnumOnUnusedInclude: a file that includes X.thrift without referring to it gets a local enum X and a
// constant written X.MEMBER.  The identifier denotes the local member, so the include stays unused.
func (g *gen) prefixEnumOnUnusedInclude() {
	for _, f := range g.p.Files {
		used := UsedIncludes(f)
		for i, inc := range f.Includes {
			pn := inc.File.Prefix()
			if used[i] || strings.Contains(pn, ".") || f.Find(pn) != nil || g.used[f][pn] || g.used[f][normName(pn)] || !g.rng.Chance(1, 2) {
				continue
			}
			dup := 0
			for _, other := range f.Includes {
				if other.File.Prefix() == pn {
					dup++
				}
			}
			// the included file must not have a constant of the member's name (that would be ambiguous)
			if dup != 1 || inc.File.Find("PFX_ONLY_LOCAL") != nil {
				continue
			}
			g.used[f][pn] = true
			e := &Def{Kind: KEnum, Name: pn, File: f, EnumVals: []*EnumVal{{Name: "PFX_ONLY_LOCAL", Explicit: true, Value: 7}}}
			c := &Def{Kind: KConst, File: f, Type: &Type{Name: pn, Ref: e},
				Value: &Value{Kind: VIdent, Ident: pn + ".PFX_ONLY_LOCAL", ToEnum: e, ToEnumVal: e.EnumVals[0]}}
			c.Name = g.globalName(f, []string{"PFX_UNUSED_PICK", "pfx_unused_choice"}, nil, nil)
			f.Defs = append(f.Defs, e, c)
			break
		}
	}
}

// sameBaseClash: when exactly one file includes two files with one base name, the later of the two also gets a
// definition named like one the includer refers to in the earlier one (of another kind, so that a wrong binding
// shows in the category).  prefix.Name denotes the definition of the first include (AST.thrift: "the first
// included IDL").
func (g *gen) sameBaseClash() {
	for _, f := range g.p.Files {
		var pair []*File
		for i, a := range f.Includes {
			for _, b := range f.Includes[i+1:] {
				if a.File.Prefix() == b.File.Prefix() && a.File != b.File {
					pair = []*File{a.File, b.File}
				}
			}
		}
		if pair == nil {
			continue
		}
		// nobody else may include both (in whatever order)
		for _, x := range g.p.Files {
			if x != f && x.IncludeIndex(pair[0]) >= 0 && x.IncludeIndex(pair[1]) >= 0 {
				return
			}
		}
		var refd []*Def
		seen := map[*Def]bool{}
		var ty func(t *Type)
		ty = func(t *Type) {
			if t == nil {
				return
			}
			if t.Ref != nil && t.Ref.File == pair[0] && t.Qual && !seen[t.Ref] && (t.Ref.Kind == KEnum || t.Ref.Kind.IsStructLike()) {
				seen[t.Ref] = true
				refd = append(refd, t.Ref)
			}
			ty(t.Key)
			ty(t.Elem)
		}
		for _, d := range f.Defs {
			ty(d.Type)
			for _, fl := range d.Fields {
				ty(fl.Type)
			}
			for _, fn := range d.Funcs {
				ty(fn.Ret)
				for _, a := range fn.Args {
					ty(a.Type)
				}
				for _, a := range fn.Throws {
					ty(a.Type)
				}
			}
		}
		for _, d := range refd {
			if pair[1].Find(d.Name) != nil || g.used[pair[1]][normName(d.Name)] {
				continue
			}
			c := &Def{Name: d.Name, File: pair[1]}
			if d.Kind == KEnum {
				c.Kind = KStruct
				c.Fields = []*Field{{ID: 1, ExplicitID: true, Type: base("i32"), Name: "shadow"}}
			} else {
				c.Kind = KEnum
				c.EnumVals = []*EnumVal{{Name: "SHADOW_" + strings.ToUpper(d.Name), Explicit: true, Value: 1}}
			}
			pair[1].Defs = append(pair[1].Defs, c)
			return
		}
		return
	}
}

func relPath(from, to string) string {
	// include paths are resolved relative to the including file's directory
	fd := strings.Split(from, "/")
	fd = fd[:len(fd)-1]
	td := strings.Split(to, "/")
	i := 0
	for i < len(fd) && i < len(td)-1 && fd[i] == td[i] {
		i++
	}
	var parts []string
	for j := i; j < len(fd); j++ {
		parts = append(parts, "..")
	}
	parts = append(parts, td[i:]...)
	return strings.Join(parts, "/")
}

// Evolve applies compatible edits to p in place (the "newer version" of a schema): optional /
// default-requiredness fields with fresh ids added to struct-likes at any nesting depth, members
// added to unions and enums.  It returns a description of each edit.
func Evolve(rng *vlib.Rng, p *Program, o GenOpts) []string {
	if o.MaxDepth == 0 {
		o.MaxDepth = 3
	}
	g := &gen{rng: rng, o: o, p: p, used: map[*File]map[string]bool{}}
	for _, f := range p.Files {
		g.used[f] = map[string]bool{}
		for _, d := range f.Defs {
			g.used[f][d.Name] = true
		}
	}
	var log []string
	n := 0
	for _, f := range p.Files {
		for _, d := range f.Defs {
			switch {
			case d.Kind == KEnum && rng.Chance(1, 2):
				used := map[int64]bool{}
				max := int64(0)
				for _, ev := range d.EnumVals {
					used[ev.Value] = true
					if ev.Value > max {
						max = ev.Value
					}
				}
				if max > math.MaxInt32-10 {
					continue
				}
				n++
				d.EnumVals = append(d.EnumVals, &EnumVal{Name: fmt.Sprintf("ADDED_%d", n), Explicit: true, Value: max + 1 + int64(rng.Intn(5))})
				log = append(log, "enum "+d.Name+": member added")
			case d.Kind.IsStructLike() && rng.Chance(2, 3):
				usedID := map[int32]bool{0: true}
				for _, fl := range d.Fields {
					usedID[fl.ID] = true
				}
				k := rng.Range(1, 3)
				for i := 0; i < k; i++ {
					n++
					fl := &Field{Name: fmt.Sprintf("added_%d", n), ExplicitID: true}
					for fl.ID = int32(rng.Range(1, 400)); usedID[fl.ID]; fl.ID = int32(rng.Range(-40, 4000)) {
					}
					usedID[fl.ID] = true
					fl.Type = g.genType(f, o.MaxDepth)
					if g.o.Recursion && rng.Chance(1, 6) && d.Kind == KStruct {
						fl.Type = &Type{Name: "list", Elem: g.refTo(f, d)}
					}
					fl.Req = ReqOptional
					if d.Kind != KUnion && !isStructy(fl.Type) && rng.Chance(1, 3) {
						fl.Req = ReqDefault // (a non-optional struct-typed addition could close a cycle of by-value fields)
					}
					if d.Kind != KUnion && rng.Chance(1, 3) {
						fl.Default = g.genValue(f, fl.Type, 1, nil)
					}
					d.Fields = append(d.Fields, fl)
					log = append(log, fmt.Sprintf("%s %s: field %s (%s, %s, default=%v) added with id %d", d.Kind, d.Name, fl.Name, fl.Type.Shape(1), fl.Req, fl.Default != nil, fl.ID))
				}
			}
		}
	}
	return log
}
