package idl

import (
	"fmt"
	"math"
	"sort"
	"strconv"
	"strings"

	"verif/vlib"
)

// Val is a semantic value of a (resolved) IDL type.
type Val struct {
	Cat string // bool i8 i16 i32 i64 double string binary enum list set map struct
	B   bool
	I   int64   // integers and enums
	D   float64 // double
	S   string  // string / binary bytes
	L   []*Val  // list / set
	M   [][2]*Val
	Def *Def           // struct-like or enum definition
	F   map[int32]*Val // struct: present fields by id
}

// Canon is a canonical text of the value (maps sorted by key text); used for keys, dedup and equality.
func (v *Val) Canon() string {
	if v == nil {
		return "<nil>"
	}
	switch v.Cat {
	case "bool":
		return fmt.Sprint(v.B)
	case "i8", "i16", "i32", "i64", "enum":
		return strconv.FormatInt(v.I, 10)
	case "double":
		return "d" + strconv.FormatUint(math.Float64bits(v.D), 16)
	case "string", "binary":
		return fmt.Sprintf("%q", v.S)
	case "list", "set":
		var s []string
		for _, e := range v.L {
			s = append(s, e.Canon())
		}
		if v.Cat == "set" {
			sort.Strings(s)
		}
		return "[" + strings.Join(s, ",") + "]"
	case "map":
		var s []string
		for _, e := range v.M {
			s = append(s, e[0].Canon()+":"+e[1].Canon())
		}
		sort.Strings(s)
		return "{" + strings.Join(s, ",") + "}"
	case "struct":
		var ids []int
		for id := range v.F {
			ids = append(ids, int(id))
		}
		sort.Ints(ids)
		var s []string
		for _, id := range ids {
			s = append(s, fmt.Sprintf("%d=%s", id, v.F[int32(id)].Canon()))
		}
		return v.Def.Name + "{" + strings.Join(s, ",") + "}"
	}
	return "?"
}

func (v *Val) Clone() *Val {
	if v == nil {
		return nil
	}
	c := *v
	if v.L != nil {
		c.L = make([]*Val, len(v.L))
		for i, e := range v.L {
			c.L[i] = e.Clone()
		}
	}
	if v.M != nil {
		c.M = make([][2]*Val, len(v.M))
		for i, e := range v.M {
			c.M[i] = [2]*Val{e[0].Clone(), e[1].Clone()}
		}
	}
	if v.F != nil {
		c.F = map[int32]*Val{}
		for k, e := range v.F {
			c.F[k] = e.Clone()
		}
	}
	return &c
}

// WireCat maps byte->i8 and union/exception->struct.
func WireCat(t *Type) string {
	c := t.Cat()
	switch c {
	case "union", "exception":
		return "struct"
	}
	return c
}

// FieldByName finds a field of a struct-like.
func (d *Def) FieldByName(n string) *Field {
	for _, f := range d.Fields {
		if f.Name == n {
			return f
		}
	}
	return nil
}

func (d *Def) FieldByID(id int32) *Field {
	for _, f := range d.Fields {
		if f.ID == id {
			return f
		}
	}
	return nil
}

// EffReq is the requiredness after semantic analysis: union members are optional.
func (d *Def) EffReq(f *Field) Req {
	if d != nil && d.Kind == KUnion {
		return ReqOptional
	}
	return f.Req
}

// Eval evaluates an initializer "by the IDL's own rules" (C3.4) for declared type t.
func Eval(v *Value, t *Type) (*Val, error) {
	if v == nil {
		return nil, fmt.Errorf("nil initializer")
	}
	if v.Kind == VIdent && v.ToConst != nil {
		return Eval(v.ToConst.Value, v.ToConst.Type)
	}
	r := t.Resolve()
	cat := WireCat(r)
	switch cat {
	case "bool":
		switch {
		case v.Kind == VIdent && v.BoolLit == 1:
			return &Val{Cat: "bool", B: true}, nil
		case v.Kind == VIdent && v.BoolLit == 2:
			return &Val{Cat: "bool", B: false}, nil
		case v.Kind == VInt && (v.Int == 0 || v.Int == 1):
			return &Val{Cat: "bool", B: v.Int == 1}, nil
		}
	case "i8", "i16", "i32", "i64":
		if v.Kind == VInt {
			return &Val{Cat: cat, I: v.Int}, nil
		}
	case "double":
		if v.Kind == VDouble {
			return &Val{Cat: cat, D: v.Dbl}, nil
		}
		if v.Kind == VInt {
			return &Val{Cat: cat, D: float64(v.Int)}, nil
		}
	case "string", "binary":
		if v.Kind == VString {
			s, err := GoInterpret(v.Str)
			if err != nil {
				return nil, err
			}
			return &Val{Cat: cat, S: s}, nil
		}
	case "enum":
		if v.Kind == VInt {
			return &Val{Cat: "enum", I: v.Int, Def: r.Ref}, nil
		}
		if v.Kind == VIdent && v.ToEnumVal != nil {
			return &Val{Cat: "enum", I: v.ToEnumVal.Value, Def: r.Ref}, nil
		}
	case "list", "set":
		if v.Kind == VList {
			out := &Val{Cat: cat, L: []*Val{}}
			for _, e := range v.List {
				ev, err := Eval(e, r.Elem)
				if err != nil {
					return nil, err
				}
				out.L = append(out.L, ev)
			}
			return out, nil
		}
	case "map":
		if v.Kind == VMap {
			out := &Val{Cat: cat, M: [][2]*Val{}}
			for _, e := range v.Map {
				k, err := Eval(e[0], r.Key)
				if err != nil {
					return nil, err
				}
				x, err := Eval(e[1], r.Elem)
				if err != nil {
					return nil, err
				}
				out.M = append(out.M, [2]*Val{k, x})
			}
			return out, nil
		}
	case "struct":
		if v.Kind == VMap {
			out := &Val{Cat: "struct", Def: r.Ref, F: map[int32]*Val{}}
			for _, e := range v.Map {
				if e[0].Kind != VString {
					return nil, fmt.Errorf("struct literal key is not a string")
				}
				fl := r.Ref.FieldByName(e[0].Str)
				if fl == nil {
					return nil, fmt.Errorf("struct literal names unknown field %q", e[0].Str)
				}
				x, err := Eval(e[1], fl.Type)
				if err != nil {
					return nil, err
				}
				out.F[fl.ID] = x
			}
			return out, nil
		}
	}
	return nil, fmt.Errorf("initializer %s does not fit type %s", v, t)
}

// GoInterpret reads literal characters as the inside of a Go interpreted string in which
// unescaped double quotes are escaped (docs/string-literals-in-the-IDL.md).
func GoInterpret(s string) (string, error) {
	var sb strings.Builder
	for i := 0; i < len(s); i++ {
		c := s[i]
		if c != '\\' {
			sb.WriteByte(c)
			continue
		}
		if i+1 >= len(s) {
			return "", fmt.Errorf("trailing backslash")
		}
		i++
		switch s[i] {
		case 'n':
			sb.WriteByte('\n')
		case 't':
			sb.WriteByte('\t')
		case 'r':
			sb.WriteByte('\r')
		case '\\':
			sb.WriteByte('\\')
		case '"':
			sb.WriteByte('"')
		default:
			return "", fmt.Errorf("escape \\%c is outside the supported set", s[i])
		}
	}
	return sb.String(), nil
}

// ---------- wire values ----------

// ValueGen draws semantic values of IDL types for the codecs.
type ValueGen struct {
	Rng      *vlib.Rng
	MaxDepth int
	NoNaN    bool
	// Mode: 0 random mix, 1 all optionals unset & containers empty, 2 everything set, 3 extremes
	Mode int
}

func (g *ValueGen) intOf(cat string) int64 {
	lo, hi := intRange(cat)
	switch g.Rng.Intn(7) {
	case 0:
		return lo
	case 1:
		return hi
	case 2:
		return 0
	case 3:
		return -1
	case 4:
		return int64(g.Rng.Range(-3, 3))
	}
	v := int64(g.Rng.Uint64())
	if v < lo || v > hi {
		v = lo + int64(g.Rng.Uint64()%uint64(hi-lo))
	}
	return v
}

func (g *ValueGen) str(binary bool) string {
	pool := []string{"", "a", "hello", "with \x00 nul", "üñíçødé", "日本語", "line\nbreak", "quote\"s'", strings.Repeat("x", 300)}
	if binary || g.Rng.Chance(1, 6) {
		if g.Rng.Bool() {
			return string(g.Rng.Bytes(g.Rng.Intn(12)))
		}
		return "\xff\xfe\x80bad-utf8\xc3"
	}
	return pool[g.Rng.Intn(len(pool))]
}

// Gen draws a value of type t.  depth bounds recursion through struct references.
func (g *ValueGen) Gen(t *Type, depth int) *Val {
	r := t.Resolve()
	cat := WireCat(r)
	switch cat {
	case "bool":
		return &Val{Cat: cat, B: g.Rng.Bool()}
	case "i8", "i16", "i32", "i64":
		return &Val{Cat: cat, I: g.intOf(cat)}
	case "double":
		pool := []float64{0, 1.5, -2.25, math.MaxFloat64, math.SmallestNonzeroFloat64, math.Inf(1), math.Inf(-1), math.Copysign(0, -1), 1e-300, 123456789.125}
		if !g.NoNaN {
			pool = append(pool, math.NaN())
		}
		return &Val{Cat: cat, D: pool[g.Rng.Intn(len(pool))]}
	case "string":
		return &Val{Cat: cat, S: g.str(false)}
	case "binary":
		return &Val{Cat: cat, S: g.str(true)}
	case "enum":
		e := r.Ref
		if len(e.EnumVals) > 0 && !g.Rng.Chance(1, 5) {
			return &Val{Cat: cat, I: e.EnumVals[g.Rng.Intn(len(e.EnumVals))].Value, Def: e}
		}
		return &Val{Cat: cat, I: int64(int32(g.Rng.Uint64())), Def: e} // a number outside the declared members still travels as i32
	case "list", "set":
		n := g.count(depth)
		out := &Val{Cat: cat, L: []*Val{}}
		seen := map[string]bool{}
		for i := 0; i < n; i++ {
			e := g.Gen(r.Elem, depth+1)
			if e == nil {
				continue
			}
			if cat == "set" {
				// elements must differ as wire values: an absent container in a non-optional field and an empty
				// one, or an optional field equal to its default and an absent one, are the same element
				c := EqCanon(goState(e))
				if seen[c] || hasNaN(e) {
					continue
				}
				seen[c] = true
			}
			out.L = append(out.L, e)
		}
		return out
	case "map":
		n := g.count(depth)
		out := &Val{Cat: cat, M: [][2]*Val{}}
		seen := map[string]bool{}
		for i := 0; i < n; i++ {
			k := g.Gen(r.Key, depth+1)
			e := g.Gen(r.Elem, depth+1)
			if k == nil || e == nil || hasNaN(k) {
				continue
			}
			c := EqCanon(goState(k))
			if seen[c] {
				continue
			}
			seen[c] = true
			out.M = append(out.M, [2]*Val{k, e})
		}
		return out
	case "struct":
		return g.GenStruct(r.Ref, depth)
	}
	return nil
}

func (g *ValueGen) count(depth int) int {
	if depth >= g.MaxDepth {
		return 0
	}
	switch g.Mode {
	case 1:
		return 0
	case 2:
		return 1 + g.Rng.Intn(2)
	}
	if depth >= 2 {
		return g.Rng.Intn(2)
	}
	return g.Rng.Intn(4)
}

func hasNaN(v *Val) bool {
	switch v.Cat {
	case "double":
		return math.IsNaN(v.D)
	case "list", "set":
		for _, e := range v.L {
			if hasNaN(e) {
				return true
			}
		}
	case "map":
		for _, e := range v.M {
			if hasNaN(e[0]) || hasNaN(e[1]) {
				return true
			}
		}
	case "struct":
		for _, e := range v.F {
			if hasNaN(e) {
				return true
			}
		}
	}
	return false
}

// GenStruct draws a value of a struct-like: required/default fields always present;
// optional fields by mode; unions exactly one member.
func (g *ValueGen) GenStruct(d *Def, depth int) *Val {
	out := &Val{Cat: "struct", Def: d, F: map[int32]*Val{}}
	if d.Kind == KUnion {
		if len(d.Fields) == 0 {
			return out
		}
		// choose a member that can be built at this depth
		perm := g.Rng.Perm(len(d.Fields))
		for _, i := range perm {
			f := d.Fields[i]
			if depth >= g.MaxDepth+2 && isStructy(f.Type) {
				continue
			}
			if v := g.Gen(f.Type, depth+1); v != nil {
				out.F[f.ID] = v
				return out
			}
		}
		f := d.Fields[perm[0]]
		if v := g.Gen(f.Type, depth+1); v != nil {
			out.F[f.ID] = v
		}
		return out
	}
	for _, f := range d.Fields {
		req := d.EffReq(f)
		if req == ReqOptional {
			set := g.Rng.Bool()
			switch g.Mode {
			case 1:
				set = false
			case 2:
				set = depth < g.MaxDepth
			}
			if depth >= g.MaxDepth && isStructy(f.Type) {
				set = false
			}
			if !set {
				continue
			}
		}
		var v *Val
		if f.Default != nil && !isStructy(f.Type) && g.Rng.Chance(1, 4) {
			v, _ = Eval(f.Default, f.Type) // a value equal to the declared default
		}
		if v == nil {
			v = g.Gen(f.Type, depth+1)
		}
		if v != nil {
			out.F[f.ID] = v
		}
	}
	return out
}

func isStructy(t *Type) bool {
	r := t.Resolve()
	switch WireCat(r) {
	case "struct":
		return true
	case "list", "set":
		return isStructy(r.Elem)
	case "map":
		return isStructy(r.Key) || isStructy(r.Elem)
	}
	return false
}

// ---------- equality / normalisation (C3.3, C3.8) ----------

// DefaultOf evaluates the declared default of a field (nil when none or not evaluable).
func DefaultOf(f *Field) *Val {
	if f.Default == nil {
		return nil
	}
	v, err := Eval(f.Default, f.Type)
	if err != nil {
		return nil
	}
	return v
}

// ZeroOf is the Go zero value of a type as a Val (nil for pointers/containers that would be nil).
func ZeroOf(t *Type) *Val {
	r := t.Resolve()
	cat := WireCat(r)
	switch cat {
	case "bool", "i8", "i16", "i32", "i64", "double", "string":
		return &Val{Cat: cat}
	case "binary":
		return &Val{Cat: cat}
	case "enum":
		return &Val{Cat: cat, Def: r.Ref}
	case "list", "set":
		return &Val{Cat: cat, L: []*Val{}}
	case "map":
		return &Val{Cat: cat, M: [][2]*Val{}}
	}
	return nil
}

func isScalarCat(c string) bool {
	switch c {
	case "bool", "i8", "i16", "i32", "i64", "double", "string", "enum":
		return true
	}
	return false
}

// WirePresent reports whether a field of struct value v must appear in the encoding (C3.3).
func WirePresent(d *Def, f *Field, v *Val) bool {
	x, ok := v.F[f.ID]
	req := d.EffReq(f)
	if req != ReqOptional {
		return true
	}
	if !ok {
		return false
	}
	// an optional field with a declared default is "set" iff its value differs from the default
	cat := WireCat(f.Type)
	if f.Default != nil && (isScalarCat(cat) || cat == "binary") {
		def := DefaultOf(f)
		if def != nil && scalarGoEqual(x, def) {
			return false
		}
	}
	return true
}

func scalarGoEqual(a, b *Val) bool {
	if a.Cat == "double" {
		return a.D == b.D // Go ==: NaN != NaN, -0 == 0
	}
	return a.Canon() == b.Canon()
}

// NormalizeWire returns the value as a decoder of the canonical encoding sees it: optional
// fields equal to their default dropped, absent non-optional containers/scalars filled in.
func NormalizeWire(v *Val) *Val {
	if v == nil {
		return nil
	}
	switch v.Cat {
	case "list", "set":
		out := &Val{Cat: v.Cat, L: []*Val{}}
		for _, e := range v.L {
			out.L = append(out.L, NormalizeWire(e))
		}
		return out
	case "map":
		out := &Val{Cat: v.Cat, M: [][2]*Val{}}
		for _, e := range v.M {
			out.M = append(out.M, [2]*Val{NormalizeWire(e[0]), NormalizeWire(e[1])})
		}
		return out
	case "struct":
		out := &Val{Cat: "struct", Def: v.Def, F: map[int32]*Val{}}
		for _, f := range v.Def.Fields {
			if !WirePresent(v.Def, f, v) {
				continue
			}
			x, ok := v.F[f.ID]
			if !ok {
				x = ZeroOf(f.Type)
				if x == nil {
					continue // absent non-optional struct: not generated
				}
			}
			out.F[f.ID] = NormalizeWire(x)
		}
		return out
	}
	c := *v
	return &c
}

// goState is the value as the generated Go object holds it after decoding: NormalizeWire, plus the declared
// default in every absent optional container / struct field (a fresh object carries it).  Two set elements or
// map keys with the same goState are one element to the generated uniqueness check.
func goState(v *Val) *Val {
	n := NormalizeWire(v)
	var fill func(x *Val)
	fill = func(x *Val) {
		if x == nil {
			return
		}
		switch x.Cat {
		case "list", "set":
			for _, e := range x.L {
				fill(e)
			}
		case "map":
			for _, e := range x.M {
				fill(e[0])
				fill(e[1])
			}
		case "struct":
			for _, e := range x.F {
				fill(e)
			}
			// the constructor writes the default as a literal: what it inserts is not completed again
			for _, f := range x.Def.Fields {
				if _, ok := x.F[f.ID]; !ok && f.Default != nil && x.Def.EffReq(f) == ReqOptional {
					if cat := WireCat(f.Type); !isScalarCat(cat) && cat != "binary" {
						if d := DefaultOf(f); d != nil {
							x.F[f.ID] = NormalizeWire(d)
						}
					}
				}
			}
		}
	}
	fill(n)
	return n
}

// EqualWire compares two values structurally (maps and sets order-insensitive, doubles by bits).
func EqualWire(a, b *Val) bool { return a.Canon() == b.Canon() }

// HasStructVal reports whether a value contains a struct value anywhere.
func HasStructVal(v *Val) bool {
	if v == nil {
		return false
	}
	switch v.Cat {
	case "struct":
		return true
	case "list", "set":
		for _, e := range v.L {
			if HasStructVal(e) {
				return true
			}
		}
	case "map":
		for _, e := range v.M {
			if HasStructVal(e[0]) || HasStructVal(e[1]) {
				return true
			}
		}
	}
	return false
}

// EqCanon is Canon under Go equality of doubles (-0 == +0): used to keep set elements and map
// keys distinct in the sense the generated code uses.
func EqCanon(v *Val) string {
	c := v.Clone()
	var walk func(x *Val)
	walk = func(x *Val) {
		if x == nil {
			return
		}
		if x.Cat == "double" && x.D == 0 {
			x.D = 0
		}
		for _, e := range x.L {
			walk(e)
		}
		for _, e := range x.M {
			walk(e[0])
			walk(e[1])
		}
		for _, e := range x.F {
			walk(e)
		}
	}
	walk(c)
	return c.Canon()
}
