package props

// C12 — Output assembly loses nothing: insertion points and file-name conflicts.
//
// Random Feed histories over a small hostile name pool are run through the real
// generator.FileManager; BuildResponse() is compared with an executable specification
// written from the property statement (DESIGN.md Appendix C3.7).

import (
	"fmt"
	"sort"
	"strings"

	"github.com/cloudwego/thriftgo/generator"
	"github.com/cloudwego/thriftgo/generator/backend"
	"github.com/cloudwego/thriftgo/plugin"

	"verif/vlib"
)

type c12Item struct {
	Named   bool
	Name    string
	Point   string // insertion point ("" = none)
	Content string
}

type c12Feed struct {
	Src   string
	Items []c12Item
}

type c12History []c12Feed

func (h c12History) String() string {
	var sb strings.Builder
	for _, f := range h {
		fmt.Fprintf(&sb, "Feed(%q):\n", f.Src)
		for _, it := range f.Items {
			if it.Named {
				fmt.Fprintf(&sb, "  {Name:%q Point:%q Content:%q}\n", it.Name, it.Point, it.Content)
			} else {
				fmt.Fprintf(&sb, "  {unnamed Point:%q Content:%q}\n", it.Point, it.Content)
			}
		}
	}
	return sb.String()
}

const c12Marker = "@@thriftgo_insertion_point(%s)"

func c12mk(name string) string { return fmt.Sprintf(c12Marker, name) }

var c12RegularPoints = []string{"imports", "a.b", "$x", "Z_9", "", "svc.", ".svc", "a..b", "svc", "."}
var c12OddPoints = []string{"extra-methods", "p/q"}

func c12IsRegular(p string) bool {
	for _, c := range p {
		if !(c == '$' || c == '.' || c == '_' || (c >= '0' && c <= '9') || (c >= 'a' && c <= 'z') || (c >= 'A' && c <= 'Z')) {
			return false
		}
	}
	return true
}

// ---------- reference model (C3.7) ----------

type c12MFile struct {
	OrigName string
	Name     string // "" until bound (renamed files take the name the implementation chose)
	Renamed  bool
	Content  string
	Patches  []c12Item
}

type c12Expect struct {
	Err   bool
	Files []*c12MFile
}

// c12Model runs the specification.  chosen(k) returns the name the implementation gave to
// the k-th file of its response (used only for renamed files, whose spelling is free).
// problems collects violations of the freshness requirement.
func c12Model(h c12History, chosen func(k int) (string, bool)) (exp c12Expect, problems []string) {
	var files []*c12MFile
	byName := func(n string) *c12MFile {
		for _, f := range files {
			if f.Name == n {
				return f
			}
		}
		return nil
	}
	for _, fd := range h {
		var last *c12MFile
		items := fd.Items
		for i := 0; i < len(items); i++ {
			it := items[i]
			if !it.Named {
				if last == nil {
					exp.Err = true
					exp.Files = files
					return
				}
				last.Patches = append(last.Patches, it)
				continue
			}
			f := byName(it.Name)
			if f == nil {
				nf := &c12MFile{OrigName: it.Name, Name: it.Name, Content: it.Content}
				files = append(files, nf)
				last = nf
				continue
			}
			if it.Point != "" {
				f.Patches = append(f.Patches, it)
				last = f
				continue
			}
			// same name, no insertion point: identical to that file or to a sibling renamed from it?
			dup := f.Content == it.Content
			for _, g := range files {
				if g.Renamed && g.OrigName == it.Name && g.Content == it.Content {
					dup = true
				}
			}
			if dup {
				for i+1 < len(items) && !items[i+1].Named {
					i++
				}
				continue
			}
			nf := &c12MFile{OrigName: it.Name, Renamed: true, Content: it.Content}
			k := len(files)
			name, ok := chosen(k)
			if !ok {
				problems = append(problems, fmt.Sprintf("missing-file: response has no entry #%d for the different-content resubmission of %q", k, it.Name))
				name = fmt.Sprintf("\x00missing-%d", k)
			} else if byName(name) != nil {
				problems = append(problems, fmt.Sprintf("renamed-name-not-fresh: resubmitted %q was stored as %q, a name another file already has", it.Name, name))
			}
			nf.Name = name
			files = append(files, nf)
			last = nf
		}
	}
	exp.Files = files
	return
}

func c12PatchHoldsMarker(f *c12MFile) bool {
	for _, p := range f.Patches {
		if strings.Contains(p.Content, "@@thriftgo_insertion_point(") {
			return true
		}
	}
	return false
}

func c12Expected(f *c12MFile) string {
	// every occurrence of a marker replaced by the concatenation of its patches
	content := f.Content
	points := map[string]string{}
	var order []string
	for _, p := range f.Patches {
		if _, ok := points[p.Point]; !ok {
			order = append(order, p.Point)
		}
		points[p.Point] += p.Content
	}
	// replace all regular markers first (also those without patches), longest names first
	var all []string
	seen := map[string]bool{}
	for _, p := range append(append([]string{}, c12RegularPoints...), order...) {
		if !seen[p] {
			seen[p] = true
			all = append(all, p)
		}
	}
	sort.Slice(all, func(i, j int) bool { return len(all[i]) > len(all[j]) })
	olds := []string{}
	for _, p := range all {
		olds = append(olds, c12mk(p), points[p])
	}
	return strings.NewReplacer(olds...).Replace(content)
}

// normalise removes odd-named markers that nobody patched (whether those count as markers is not asserted).
func c12Normalise(s string, f *c12MFile) string {
	patched := map[string]bool{}
	for _, p := range f.Patches {
		patched[p.Point] = true
	}
	for _, p := range c12OddPoints {
		if !patched[p] {
			s = strings.ReplaceAll(s, c12mk(p), "")
		}
	}
	return s
}

// ---------- running the implementation ----------

type c12Out struct {
	Err   string
	Files []*plugin.Generated
	Panic string
}

func c12RunImpl(h c12History) (out c12Out) {
	defer func() {
		if e := recover(); e != nil {
			out.Panic = fmt.Sprint(e)
		}
	}()
	fm := generator.NewFileManager(backend.DummyLogFunc())
	for _, fd := range h {
		var gs []*plugin.Generated
		for _, it := range fd.Items {
			g := &plugin.Generated{Content: it.Content}
			if it.Named {
				n := it.Name
				g.Name = &n
			}
			if it.Point != "" {
				p := it.Point
				g.InsertionPoint = &p
			}
			gs = append(gs, g)
		}
		if err := fm.Feed(fd.Src, gs); err != nil {
			out.Err = err.Error()
			return
		}
	}
	out.Files = fm.BuildResponse().Contents
	return
}

// c12Check returns violation keys (empty = held) and a description.
func c12Check(h c12History) (keys []string, detail string) {
	out := c12RunImpl(h)
	add := func(k, d string) {
		keys = append(keys, k)
		if detail == "" {
			detail = d
		}
	}
	if out.Panic != "" {
		add("panic", "FileManager panicked: "+out.Panic)
		return
	}
	exp, problems := c12Model(h, func(k int) (string, bool) {
		if k < len(out.Files) {
			return out.Files[k].GetName(), true
		}
		return "", false
	})
	if exp.Err {
		if out.Err == "" {
			add("untargeted-patch-accepted", "an unnamed patch with no preceding named file in its Feed call was accepted")
		}
		return
	}
	if out.Err != "" {
		add("spurious-error", "Feed failed on a history with no untargeted patch: "+out.Err)
		return
	}
	for _, p := range problems {
		add(strings.SplitN(p, ":", 2)[0], p)
	}
	if len(out.Files) != len(exp.Files) {
		k := "file-count/too-few"
		if len(out.Files) > len(exp.Files) {
			k = "file-count/too-many"
		}
		add(k, fmt.Sprintf("response has %d files, specification %d", len(out.Files), len(exp.Files)))
		return
	}
	nested := c12HasNestedMarker(h)
	if nested {
		// the same history assembled again (fresh FileManager) must give the same bytes
		for k := 0; k < 6; k++ {
			again := c12RunImpl(h)
			if len(again.Files) != len(out.Files) || again.Err != out.Err || again.Panic != out.Panic {
				add("nondeterministic-assembly/patch-text-holds-a-marker", fmt.Sprintf("assembling the same history twice gives %d and %d files (errors %q / %q)", len(out.Files), len(again.Files), out.Err, again.Err))
				return
			}
			for i := range again.Files {
				if again.Files[i].GetName() != out.Files[i].GetName() || again.Files[i].Content != out.Files[i].Content {
					add("nondeterministic-assembly/patch-text-holds-a-marker", fmt.Sprintf("assembling the same history twice gives different contents for file #%d %q:\n first: %q\n again: %q", i, out.Files[i].GetName(), out.Files[i].Content, again.Files[i].Content))
					return
				}
			}
		}
	}
	names := map[string]int{}
	for i, f := range out.Files {
		n := f.GetName()
		names[n]++
		e := exp.Files[i]
		if !e.Renamed && n != e.Name {
			add("name-changed", fmt.Sprintf("file #%d submitted as %q came out as %q", i, e.Name, n))
		}
		want := c12Normalise(c12Expected(e), e)
		got := c12Normalise(f.Content, e)
		if nested && c12PatchHoldsMarker(e) {
			continue // not pinned down: see c12Nest
		}
		if got != want {
			k := "content"
			switch {
			case strings.Contains(got, "@@thriftgo_insertion_point("):
				k = "content/marker-left"
			case len(got) < len(want):
				k = "content/patch-missing-or-text-lost"
			case len(got) > len(want):
				k = "content/extra-text"
			default:
				k = "content/order-or-text-differs"
			}
			add(k, fmt.Sprintf("file #%d %q:\n got: %q\nwant: %q", i, n, got, want))
		}
	}
	for n, c := range names {
		if c > 1 {
			add("duplicate-name-in-response", fmt.Sprintf("response carries %d files named %q", c, n))
		}
	}
	return
}

// ---------- workload ----------

var c12Names = []string{"a.go", "a_1.go", "a_2.go", "b", "d.x/c.go", "a_1_1.go", "b_1"}

func c12GenHistory(rng *vlib.Rng, uid *int) c12History {
	var h c12History
	nsrc := rng.Range(1, 4)
	contents := map[string][]string{} // name -> contents used so far (to resubmit identical ones)
	for s := 0; s < nsrc; s++ {
		fd := c12Feed{Src: fmt.Sprintf("src%d", s)}
		n := rng.Range(1, 12)
		for i := 0; i < n; i++ {
			x := rng.Intn(100)
			switch {
			case x < 45: // named file
				name := c12Names[rng.Intn(len(c12Names))]
				var content string
				if prev := contents[name]; len(prev) > 0 && rng.Chance(1, 2) {
					content = prev[rng.Intn(len(prev))]
				} else {
					content = c12GenContent(rng, uid)
					contents[name] = append(contents[name], content)
				}
				fd.Items = append(fd.Items, c12Item{Named: true, Name: name, Content: content})
			case x < 80: // unnamed patch (needs a preceding named item, else error — rare on purpose)
				if len(fd.Items) == 0 && !rng.Chance(1, 12) {
					i--
					name := c12Names[rng.Intn(len(c12Names))]
					content := c12GenContent(rng, uid)
					contents[name] = append(contents[name], content)
					fd.Items = append(fd.Items, c12Item{Named: true, Name: name, Content: content})
					continue
				}
				*uid++
				fd.Items = append(fd.Items, c12Item{Point: c12Point(rng), Content: c12Nest(rng, fmt.Sprintf("<P%d>", *uid))})
			default: // named patch for a name fed earlier
				var known []string
				for k := range contents {
					known = append(known, k)
				}
				if len(known) == 0 {
					i--
					name := c12Names[rng.Intn(len(c12Names))]
					content := c12GenContent(rng, uid)
					contents[name] = append(contents[name], content)
					fd.Items = append(fd.Items, c12Item{Named: true, Name: name, Content: content})
					continue
				}
				sort.Strings(known)
				*uid++
				p := c12Point(rng)
				if p == "" {
					p = "imports"
				}
				if rng.Chance(1, 4) {
					// a "patch" for a name nobody has fed yet: it is the first file of that name
					var fresh []string
					for _, n := range c12Names {
						if _, ok := contents[n]; !ok {
							fresh = append(fresh, n)
						}
					}
					if len(fresh) > 0 {
						name := fresh[rng.Intn(len(fresh))]
						content := fmt.Sprintf("<F%d>", *uid)
						contents[name] = append(contents[name], content)
						fd.Items = append(fd.Items, c12Item{Named: true, Name: name, Point: p, Content: content})
						continue
					}
				}
				fd.Items = append(fd.Items, c12Item{Named: true, Name: known[rng.Intn(len(known))], Point: p, Content: c12Nest(rng, fmt.Sprintf("<N%d>", *uid))})
			}
		}
		h = append(h, fd)
	}
	return h
}

func c12Point(rng *vlib.Rng) string {
	if rng.Chance(1, 6) {
		return c12OddPoints[rng.Intn(len(c12OddPoints))]
	}
	if rng.Chance(1, 10) {
		return "absent.point"
	}
	return c12RegularPoints[rng.Intn(len(c12RegularPoints)-1)]
}

// c12Nest sometimes puts the marker of another point into the text of a patch.  What becomes of such a
// marker is not pinned down by the property (the implementation inserts patch text without scanning it
// again); what is asserted for these histories is that the assembly is a function of its input.
func c12Nest(rng *vlib.Rng, content string) string {
	if !rng.Chance(1, 6) {
		return content
	}
	return content + "[" + c12mk(c12RegularPoints[rng.Intn(len(c12RegularPoints))]) + "]"
}

func c12HasNestedMarker(h c12History) bool {
	for _, fd := range h {
		for _, it := range fd.Items {
			if it.Point != "" && strings.Contains(it.Content, "@@thriftgo_insertion_point(") {
				return true
			}
		}
	}
	return false
}

func c12GenContent(rng *vlib.Rng, uid *int) string {
	var sb strings.Builder
	*uid++
	fmt.Fprintf(&sb, "// file %d\n", *uid)
	n := rng.Intn(6)
	for i := 0; i < n; i++ {
		switch rng.Intn(4) {
		case 0:
			fmt.Fprintf(&sb, "text%d(x) @@ $1 ", rng.Intn(3))
		case 1:
			sb.WriteString("\n")
		default:
			var p string
			if rng.Chance(1, 6) {
				p = c12OddPoints[rng.Intn(len(c12OddPoints))]
			} else {
				p = c12RegularPoints[rng.Intn(len(c12RegularPoints))]
			}
			sb.WriteString("// " + c12mk(p) + "\n")
		}
	}
	return sb.String()
}

func c12Shrink(h c12History, key string) c12History {
	has := func(h c12History) bool {
		ks, _ := c12Check(h)
		for _, k := range ks {
			if k == key {
				return true
			}
		}
		return false
	}
	changed := true
	for changed {
		changed = false
		for fi := 0; fi < len(h); fi++ {
			for ii := 0; ii < len(h[fi].Items); ii++ {
				var nh c12History
				for fj, fd := range h {
					nf := c12Feed{Src: fd.Src}
					for ij, it := range fd.Items {
						if fj == fi && ij == ii {
							continue
						}
						nf.Items = append(nf.Items, it)
					}
					if len(nf.Items) > 0 {
						nh = append(nh, nf)
					}
				}
				if has(nh) {
					h = nh
					changed = true
					fi, ii = 0, -1
					if len(h) == 0 {
						return h
					}
				}
			}
		}
	}
	return h
}

func c12Signature(h c12History) string {
	// shape of the history: per item kind + whether name repeats + same/different content
	var sb strings.Builder
	seen := map[string][]string{}
	for _, fd := range h {
		sb.WriteString("|")
		for _, it := range fd.Items {
			switch {
			case !it.Named:
				sb.WriteString("u")
			case it.Point != "":
				sb.WriteString("p")
			default:
				prev := seen[it.Name]
				c := "n"
				if len(prev) > 0 {
					c = "D"
					for _, x := range prev {
						if x == it.Content {
							c = "S"
						}
					}
				}
				seen[it.Name] = append(prev, it.Content)
				sb.WriteString(c)
			}
		}
	}
	return sb.String()
}

func C12(r *vlib.Run) {
	r.Rule = "one case = a history of 1-4 Feed calls (1-12 items each: named files over a 7-name pool that contains the renamer's own spellings, unnamed patches, named patches, equal/different-content resubmissions, 0-n markers per file incl. points that do not occur) followed by BuildResponse, compared with the executable specification C3.7; distinct = distinct history shapes (sequence of item kinds with new/same-content/different-content classification)"
	r.Assume("files of the response are matched to the specification in submission order; names of renamed files are only required to be fresh and unique")
	uid := 0
	// regression corpus
	n := func(name, content string) c12Item { return c12Item{Named: true, Name: name, Content: content} }
	corpus := []c12History{
		{{Src: "s", Items: []c12Item{n("a_1.go", "one"), n("a.go", "two"), n("a.go", "three")}}},
		{{Src: "s", Items: []c12Item{n("a.go", "x // "+c12mk("imports")+"\n"), {Point: "imports", Content: "<P1>"}, n("a.go", "y // "+c12mk("imports")+"\n"), {Point: "imports", Content: "<P2>"}}}},
		{{Src: "s", Items: []c12Item{n("a.go", "x "+c12mk("extra-methods")+" "+c12mk("a.b")+c12mk("a.b")), {Point: "extra-methods", Content: "<P1>"}, {Point: "a.b", Content: "<P2>"}, {Point: "a.b", Content: "<P3>"}}}},
		{{Src: "s", Items: []c12Item{{Point: "imports", Content: "<P1>"}}}},
		{{Src: "s", Items: []c12Item{n("a.go", "same")}}, {Src: "t", Items: []c12Item{n("a.go", "same"), {Point: "imports", Content: "<P1>"}, n("b", "k"+c12mk("imports"))}}},
		{{Src: "s", Items: []c12Item{n("a.go", "1"), n("a.go", "2"), n("a.go", "3"), n("a.go", "2"), n("a.go", "4")}}},
		// patch text that itself holds markers of other points of the file (a cycle of three)
		{{Src: "s", Items: []c12Item{n("a.go", "x "+c12mk("imports")+" y "+c12mk("extra-methods")+" z "+c12mk("a.b")), {Point: "imports", Content: "<P1 " + c12mk("extra-methods") + ">"}, {Point: "extra-methods", Content: "<P2 " + c12mk("a.b") + ">"}, {Point: "a.b", Content: "<P3 " + c12mk("imports") + ">"}}}},
	}
	total := r.N(60000, 1500000)
	rng := vlib.NewRng(r.Seed, "c12")
	run := func(h c12History, sample bool) {
		keys, detail := c12Check(h)
		r.Eval(1)
		r.Sig(c12Signature(h))
		if len(keys) == 0 && c12HasNestedMarker(h) {
			r.Eval(6)
			r.Sig("patch-text-holds-a-marker:assembled-7-times-identically")
		}
		seenKey := map[string]bool{}
		for _, k := range keys {
			if seenKey[k] {
				continue
			}
			seenKey[k] = true
			sh := h
			if r.Counter("shrinks") < 40 {
				r.Count("shrinks", 1)
				sh = c12Shrink(h, k)
				_, d2 := c12Check(sh)
				if d2 != "" {
					detail = d2
				}
			}
			r.Violation("C12/"+k, detail+"\nhistory (shrunk):\n"+sh.String(), vlib.Replay{"history.txt": sh.String(), "history_full.txt": h.String()})
		}
		if sample {
			r.Sample(map[string]interface{}{"history": h.String(), "violations": keys})
		}
	}
	for _, h := range corpus {
		run(h, false)
	}
	for i := 0; i < total; i++ {
		run(c12GenHistory(rng, &uid), i%(total/5+1) == 0)
	}
	r.Require("patch-text-holds-a-marker:assembled-7-times-identically")
}
