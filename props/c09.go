package props

// C09 — Schema evolution: unknown fields are tolerated, and preserved when asked.

import (
	"encoding/json"
	"fmt"
	"strings"

	"verif/harness"
	"verif/idl"
	"verif/refcodec"
	"verif/vlib"
)

func c09Opts(rng *vlib.Rng) idl.GenOpts {
	o := idl.DefaultOpts()
	o.Files = rng.Range(1, 2)
	o.Structs = rng.Range(3, 5)
	o.FieldsMax = 7
	o.NameStress = 0
	o.Annotations = 0
	o.Services = false
	o.Consts = false
	o.UnionDefault = false
	o.MaxDepth = 3
	o.StructKeys = false // two keys that differ only in an added field collapse in the old view
	return o
}

// project maps a value onto another version of its type: fields the target schema lacks are
// dropped, fields the value lacks stay absent.
func project(v *idl.Val, t *idl.Type) *idl.Val {
	if v == nil {
		return nil
	}
	r := t.Resolve()
	switch idl.WireCat(r) {
	case "list", "set":
		o := &idl.Val{Cat: v.Cat, L: []*idl.Val{}}
		for _, e := range v.L {
			o.L = append(o.L, project(e, r.Elem))
		}
		return o
	case "map":
		o := &idl.Val{Cat: v.Cat, M: [][2]*idl.Val{}}
		for _, e := range v.M {
			o.M = append(o.M, [2]*idl.Val{project(e[0], r.Key), project(e[1], r.Elem)})
		}
		return o
	case "struct":
		o := &idl.Val{Cat: "struct", Def: r.Ref, F: map[int32]*idl.Val{}}
		for _, f := range r.Ref.Fields {
			if x, ok := v.F[f.ID]; ok {
				o.F[f.ID] = project(x, f.Type)
			}
		}
		return o
	case "enum":
		c := *v
		c.Def = r.Ref
		return &c
	}
	c := *v
	return &c
}

// carryExpect computes, per object path, whether the old code must report unknown fields.
func carryExpect(v *idl.Val, oldT *idl.Type, path string, out map[string]bool) {
	if v == nil {
		return
	}
	r := oldT.Resolve()
	switch idl.WireCat(r) {
	case "list", "set":
		for i, e := range v.L {
			carryExpect(e, r.Elem, fmt.Sprintf("%s[%d]", path, i), out)
		}
	case "map":
		if idl.WireCat(r.Key) == "struct" {
			return
		}
		for _, e := range v.M {
			b, _ := json.Marshal(harness.ToJV(e[0]))
			carryExpect(e[1], r.Elem, path+"{"+string(b)+"}", out)
		}
	case "struct":
		od := r.Ref
		carrying := false
		for id := range v.F {
			if od.FieldByID(id) == nil {
				carrying = true
			}
		}
		out[path] = carrying
		for _, f := range od.Fields {
			if x, ok := v.F[f.ID]; ok {
				carryExpect(x, f.Type, fmt.Sprintf("%s.%d", path, f.ID), out)
			}
		}
	}
}

type c09Pair struct {
	old, nw     *idl.Program
	uOld, uOldK *harness.Unit
	uNew        *harness.Unit
	edits       []string
	oldOf       map[*idl.Def]*idl.Def
}

type c09Case struct {
	nd, od   *idl.Def // new / old definition of the type
	v        *idl.Val // value of the new (forward) or old (backward) schema
	backward bool
	b        [5][]byte // bytes after each hop
	fail     bool
}

func C09(r *vlib.Run) {
	r.Rule = "one evaluation = one hop of a read/write chain between code generated from an old schema (with and without keep_unknown_fields) and from a newer schema obtained by compatible edits (optional/default fields with fresh ids added at any depth, enum and union members added): old.Read of new data (no error, common fields keep their values), new.Read of old data (added fields take defaults), and with keep_unknown_fields old->new->old chains of length 3 whose bytes the reference decoder maps back to the original value, plus CarryingUnknownFields() per object path; distinct = (hop, added field shape/requiredness, depth) signatures"
	s, err := harness.NewScratch("c09")
	if err != nil {
		vlib.Fatal("C09", "scratch: %v", err)
	}
	defer s.Close()
	rng := vlib.NewRng(r.Seed, "c09")
	np := r.N(10, 100)
	var pairs []*c09Pair
	var units []*harness.Unit
	for i := 0; i < np; i++ {
		o := c09Opts(rng)
		seed := int64(rng.Uint64() >> 1)
		pr := &c09Pair{old: idl.Generate(vlib.NewRng(seed, "c09p"), o), nw: idl.Generate(vlib.NewRng(seed, "c09p"), o)}
		pr.edits = idl.Evolve(rng.Fork("evolve"), pr.nw, o)
		pr.oldOf = map[*idl.Def]*idl.Def{}
		for fi, f := range pr.nw.Files {
			for _, d := range f.Defs {
				if od := pr.old.Files[fi].Find(d.Name); od != nil {
					pr.oldOf[d] = od
				}
			}
		}
		pr.uOld = &harness.Unit{Name: fmt.Sprintf("u%03do", i), Prog: pr.old, Backend: "go", Recurse: true}
		pr.uOldK = &harness.Unit{Name: fmt.Sprintf("u%03dk", i), Prog: pr.old, Backend: "go", Opts: []string{"keep_unknown_fields"}, Recurse: true}
		pr.uNew = &harness.Unit{Name: fmt.Sprintf("u%03dn", i), Prog: pr.nw, Backend: "go", Recurse: true}
		if i%3 == 2 {
			pr.uNew.Opts = []string{"keep_unknown_fields"}
		}
		units = append(units, pr.uOld, pr.uOldK, pr.uNew)
		pairs = append(pairs, pr)
	}
	ok := buildUnits(r, "C09", s, units)
	built := map[*harness.Unit]bool{}
	for _, u := range ok {
		built[u] = true
	}
	for _, pr := range pairs {
		if !built[pr.uOld] || !built[pr.uOldK] || !built[pr.uNew] {
			r.Count("pairs_not_built", 1)
			continue
		}
		c09Pairs(r, rng.Fork(pr.uNew.Name), pr)
	}
}

func c09Pairs(r *vlib.Run, rng *vlib.Rng, pr *c09Pair) {
	tmOld, e1 := describe(pr.uOld)
	tmOldK, e2 := describe(pr.uOldK)
	tmNew, e3 := describe(pr.uNew)
	if e1 != nil || e2 != nil || e3 != nil {
		r.Inconclusive(fmt.Sprintf("%s: describe failed: %v %v %v", pr.uNew.Name, e1, e2, e3))
		return
	}
	replay := vlib.Replay{"edits.txt": strings.Join(pr.edits, "\n") + "\n"}
	for k, v := range pr.uOld.Texts {
		replay["old/"+k] = v
	}
	for k, v := range pr.uNew.Texts {
		replay["new/"+k] = v
	}
	var cases []*c09Case
	nvals := r.N(6, 12)
	for _, nd := range tmNew.defs {
		od := pr.oldOf[nd]
		if od == nil || tmOld.key[od] == "" || tmOldK.key[od] == "" {
			continue
		}
		for k := 0; k < nvals; k++ {
			g := &idl.ValueGen{Rng: rng.Fork(nd.Name), MaxDepth: 3, Mode: []int{0, 2, 0, 1}[k%4]}
			cases = append(cases, &c09Case{nd: nd, od: od, v: g.GenStruct(nd, 0)})
			if k%2 == 0 {
				go2 := &idl.ValueGen{Rng: rng.Fork("b" + nd.Name), MaxDepth: 3, Mode: []int{0, 2}[k/2%2]}
				cases = append(cases, &c09Case{nd: nd, od: od, v: go2.GenStruct(od, 0), backward: true})
			}
		}
	}
	if len(cases) == 0 {
		return
	}
	bad := func(c *c09Case, key, f string, a ...interface{}) {
		c.fail = true
		r.Violation("C09/"+key, fmt.Sprintf("type %s: ", c.nd.Name)+fmt.Sprintf(f, a...)+"\n value: "+vlib.Trunc(c.v.Canon(), 800)+"\n edits: "+vlib.Trunc(strings.Join(pr.edits, "; "), 600), replay)
	}
	// run one hop for a set of cases on one unit; returns results aligned with idx
	hop := func(u *harness.Unit, tag string, idx []int, mk func(c *c09Case) map[string]interface{}) map[int]harness.GuestResult {
		var cmds []map[string]interface{}
		for _, i := range idx {
			cmds = append(cmds, mk(cases[i]))
		}
		out := map[int]harness.GuestResult{}
		if len(cmds) == 0 {
			return out
		}
		res, fatal, last, stderr := u.RunGuest(tag, cmds)
		if fatal != "" && fatal != "timeout" {
			c := cases[idx[0]]
			if last >= 0 && last < len(idx) {
				c = cases[idx[last]]
			}
			bad(c, "process-death/"+tag+"/"+fatal, "guest died during hop %s: %s", tag, vlib.Trunc(stderr, 800))
		}
		for j, i := range idx {
			if gr := res[j]; gr != nil {
				if p := guestProblem(gr); p != "" {
					r.Count("harness_problems", 1)
					if r.Counter("harness_problems") <= 5 {
						fmt.Printf("NOTE property=C09 %s hop %s: harness problem: %s\n", u.Name, tag, p)
					}
					continue
				}
				out[i] = gr
			}
		}
		return out
	}
	var fwd, bwd []int
	for i, c := range cases {
		if c.backward {
			bwd = append(bwd, i)
		} else {
			fwd = append(fwd, i)
		}
	}
	typOf := func(d *idl.Def) *idl.Type { return &idl.Type{Name: d.Name, Ref: d} }

	// ---- forward: new data read by old code
	res := hop(pr.uNew, "w1", fwd, func(c *c09Case) map[string]interface{} {
		return map[string]interface{}{"op": "write", "type": tmNew.key[c.nd], "val": harness.ToJV(c.v)}
	})
	var live []int
	for _, i := range fwd {
		gr := res[i]
		if gr == nil || strOf(gr["err"]) != "" || strOf(gr["panic"]) != "" {
			continue // C02's business
		}
		cases[i].b[0] = unhex(gr["bytes"])
		live = append(live, i)
	}
	// plain old code
	res = hop(pr.uOld, "r1", live, func(c *c09Case) map[string]interface{} {
		return map[string]interface{}{"op": "read", "type": tmOld.key[c.od], "bytes": hexOf(c.b[0])}
	})
	for _, i := range live {
		c, gr := cases[i], res[i]
		if gr == nil {
			continue
		}
		r.Eval(1)
		if pn := strOf(gr["panic"]); pn != "" {
			bad(c, "old-reads-new/panic", "old code panicked on data of the newer schema: %s", pn)
			continue
		}
		if e := strOf(gr["err"]); e != "" {
			bad(c, "old-reads-new/error", "old code fails on data of the newer schema: %s", e)
			continue
		}
		obs, err := harness.FromJV(gr["val"], typOf(c.od))
		if err != nil {
			bad(c, "old-reads-new/dump", "%v", err)
			continue
		}
		exp := harness.ObjState(project(idl.NormalizeWire(c.v), typOf(c.od)))
		obsS := harness.ObjState(obs)
		if exp.Canon() != obsS.Canon() {
			bad(c, "old-reads-new/common-field-changed/"+diffSite(c.od, exp, obsS), "a field common to both versions changed\n want %s\n  got %s", vlib.Trunc(exp.Canon(), 700), vlib.Trunc(obsS.Canon(), 700))
		}
		c09Sigs(r, "old-reads-new", c)
	}
	// old code with keep_unknown_fields: chain old_k -> new -> old_k
	chainRead := func(u *harness.Unit, tm *typeMap, useOld bool, in, out int, tag string, idx []int) []int {
		rs := hop(u, tag, idx, func(c *c09Case) map[string]interface{} {
			d := c.nd
			if useOld {
				d = c.od
			}
			return map[string]interface{}{"op": "read", "type": tm.key[d], "bytes": hexOf(c.b[in]), "rewrite": true, "carry": useOld && in == 0}
		})
		var next []int
		for _, i := range idx {
			c, gr := cases[i], rs[i]
			if gr == nil {
				continue
			}
			r.Eval(1)
			who := "newer code"
			if useOld {
				who = "old code with keep_unknown_fields"
			}
			if pn := strOf(gr["panic"]); pn != "" {
				bad(c, "chain/"+tag+"/panic", "%s panicked: %s", who, pn)
				continue
			}
			if e := strOf(gr["err"]); e != "" {
				bad(c, "chain/"+tag+"/read-error", "%s fails to read hop %d of the chain: %s", who, in, e)
				continue
			}
			if e := strOf(gr["rewrite_err"]); e != "" {
				k := "chain/" + tag + "/rewrite-error"
				if c.nd.Kind == idl.KUnion || strings.Contains(e, "union") {
					k += "/union"
				}
				bad(c, k, "%s cannot write what it just read: %s", who, e)
				continue
			}
			c.b[out] = unhex(gr["rewrite"])
			dec, err := refcodec.DecodeStruct(c.nd, c.b[out])
			want := idl.NormalizeWire(c.v)
			if err != nil {
				bad(c, "chain/"+tag+"/undecodable/"+decodeKind(err), "bytes after hop %d are not decodable under the newer schema: %v", out, err)
				continue
			}
			// compared as object states: optional fields whose declared default is a container are
			// set in every fresh object (and re-written), struct-literal defaults are not asserted
			ws, ds := harness.ObjState(want), harness.ObjState(dec)
			if ws.Canon() != ds.Canon() {
				bad(c, "chain/"+tag+"/value-changed/"+diffSite(c.nd, ws, ds), "after hop %d the newer schema decodes another value\n want %s\n  got %s", out, vlib.Trunc(ws.Canon(), 700), vlib.Trunc(ds.Canon(), 700))
				continue
			}
			if cw, ok := gr["carry"].(map[string]interface{}); ok {
				exp := map[string]bool{}
				carryExpect(want, typOf(c.od), "$", exp)
				for p, w := range exp {
					got, present := cw[p].(bool)
					if !present {
						continue
					}
					r.Eval(1)
					if got != w {
						bad(c, fmt.Sprintf("carrying-unknown-fields/reports-%v-should-%v/depth%d", got, w, strings.Count(p, ".")), "object at %s reports CarryingUnknownFields()=%v, it holds unknown fields: %v", p, got, w)
						break
					}
					r.Sigf("carry/%v/depth%d", w, min(strings.Count(p, "."), 4))
				}
			}
			c09Sigs(r, "chain-"+tag, c)
			next = append(next, i)
		}
		return next
	}
	l2 := chainRead(pr.uOldK, tmOldK, true, 0, 1, "k1", live)
	l3 := chainRead(pr.uNew, tmNew, false, 1, 2, "n2", l2)
	chainRead(pr.uOldK, tmOldK, true, 2, 3, "k3", l3)

	// ---- the same chain over the compact protocol, decided by the newer code itself as decoder
	{
		cb := map[int][]byte{}
		rs := hop(pr.uNew, "cw1", live, func(c *c09Case) map[string]interface{} {
			return map[string]interface{}{"op": "write", "type": tmNew.key[c.nd], "val": harness.ToJV(c.v), "proto": "compact"}
		})
		var l []int
		for _, i := range live {
			if gr := rs[i]; gr != nil && strOf(gr["err"]) == "" && strOf(gr["panic"]) == "" {
				cb[i] = unhex(gr["bytes"])
				l = append(l, i)
			}
		}
		rs = hop(pr.uOldK, "ck1", l, func(c *c09Case) map[string]interface{} {
			i := -1
			for j := range cases {
				if cases[j] == c {
					i = j
				}
			}
			return map[string]interface{}{"op": "read", "type": tmOldK.key[c.od], "bytes": hexOf(cb[i]), "rewrite": true, "proto": "compact"}
		})
		var l2c []int
		for _, i := range l {
			c, gr := cases[i], rs[i]
			if gr == nil {
				continue
			}
			r.Eval(1)
			if e := strOf(gr["panic"]) + strOf(gr["err"]) + strOf(gr["rewrite_err"]); e != "" {
				bad(c, "compact-chain/old-code-fails", "old code with keep_unknown_fields fails on compact-protocol data of the newer schema: %s", e)
				continue
			}
			cb[i] = unhex(gr["rewrite"])
			l2c = append(l2c, i)
		}
		rs = hop(pr.uNew, "cn2", l2c, func(c *c09Case) map[string]interface{} {
			i := -1
			for j := range cases {
				if cases[j] == c {
					i = j
				}
			}
			return map[string]interface{}{"op": "read", "type": tmNew.key[c.nd], "bytes": hexOf(cb[i]), "proto": "compact"}
		})
		for _, i := range l2c {
			c, gr := cases[i], rs[i]
			if gr == nil {
				continue
			}
			r.Eval(1)
			if e := strOf(gr["panic"]) + strOf(gr["err"]); e != "" {
				bad(c, "compact-chain/newer-code-cannot-read-rewritten-data", "the newer code cannot read what the old code re-wrote (compact protocol): %s", e)
				continue
			}
			obs, err := harness.FromJV(gr["val"], typOf(c.nd))
			if err != nil {
				continue
			}
			ws, os_ := harness.ObjState(idl.NormalizeWire(c.v)), harness.ObjState(obs)
			if ws.Canon() != os_.Canon() {
				bad(c, "compact-chain/value-changed/"+diffSite(c.nd, ws, os_), "after old->new over the compact protocol the value changed\n want %s\n  got %s", vlib.Trunc(ws.Canon(), 700), vlib.Trunc(os_.Canon(), 700))
			}
			r.Sigf("compact-chain/%s", c.nd.Kind)
		}
	}

	// ---- backward: old data read by the newer code
	res = hop(pr.uOld, "w1b", bwd, func(c *c09Case) map[string]interface{} {
		return map[string]interface{}{"op": "write", "type": tmOld.key[c.od], "val": harness.ToJV(c.v)}
	})
	live = nil
	for _, i := range bwd {
		gr := res[i]
		if gr == nil || strOf(gr["err"]) != "" || strOf(gr["panic"]) != "" {
			continue
		}
		cases[i].b[0] = unhex(gr["bytes"])
		live = append(live, i)
	}
	res = hop(pr.uNew, "r1b", live, func(c *c09Case) map[string]interface{} {
		return map[string]interface{}{"op": "read", "type": tmNew.key[c.nd], "bytes": hexOf(c.b[0])}
	})
	for _, i := range live {
		c, gr := cases[i], res[i]
		if gr == nil {
			continue
		}
		r.Eval(1)
		if pn := strOf(gr["panic"]); pn != "" {
			bad(c, "new-reads-old/panic", "newer code panicked on old data: %s", pn)
			continue
		}
		if e := strOf(gr["err"]); e != "" {
			bad(c, "new-reads-old/error", "newer code fails on old data: %s", e)
			continue
		}
		obs, err := harness.FromJV(gr["val"], typOf(c.nd))
		if err != nil {
			bad(c, "new-reads-old/dump", "%v", err)
			continue
		}
		// added fields are absent in the lifted value: ObjState gives them their defaults
		exp := harness.ObjState(project(idl.NormalizeWire(c.v), typOf(c.nd)))
		obsS := harness.ObjState(obs)
		if exp.Canon() != obsS.Canon() {
			bad(c, "new-reads-old/"+diffSite(c.nd, exp, obsS), "object differs (added fields must hold their defaults, common fields their values)\n want %s\n  got %s", vlib.Trunc(exp.Canon(), 700), vlib.Trunc(obsS.Canon(), 700))
		}
		c09Sigs(r, "new-reads-old", c)
	}
	r.Sample(map[string]interface{}{"edits": pr.edits, "cases": len(cases)})
}

// c09Sigs records which added-field shapes the compared value actually exercised.
func c09Sigs(r *vlib.Run, hop string, c *c09Case) {
	var walk func(nd, od *idl.Def, v *idl.Val, depth int)
	seen := map[*idl.Def]bool{}
	walk = func(nd, od *idl.Def, v *idl.Val, depth int) {
		if nd == nil || od == nil || v == nil || depth > 3 || seen[nd] {
			return
		}
		seen[nd] = true
		for _, f := range nd.Fields {
			if od.FieldByID(f.ID) == nil {
				_, present := v.F[f.ID]
				r.Sigf("%s/added-%s/%s/default=%v/present=%v/depth%d/%s", hop, f.Type.Shape(0), f.Req, f.Default != nil, present, depth, nd.Kind)
			}
		}
	}
	walk(c.nd, c.od, c.v, 0)
	r.Sigf("%s/%s", hop, c.nd.Kind)
}
