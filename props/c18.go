package props

// C18 — Generated DeepEqual is structural equality.

import (
	"fmt"
	"math"
	"strings"

	"verif/harness"
	"verif/idl"
	"verif/vlib"
)

func c18Opts(rng *vlib.Rng) idl.GenOpts {
	o := idl.DefaultOpts()
	o.Files = rng.Range(1, 2)
	o.Structs = rng.Range(3, 5)
	o.FieldsMax = 8
	o.NameStress = rng.Intn(2)
	o.Annotations = 0
	o.Services = false
	o.UnionDefault = false
	return o
}

// setsAsLists turns sets into lists so that Canon compares them position by position (C3.8).
func setsAsLists(v *idl.Val) *idl.Val {
	if v == nil {
		return nil
	}
	switch v.Cat {
	case "list", "set":
		o := &idl.Val{Cat: "list", L: []*idl.Val{}}
		for _, e := range v.L {
			o.L = append(o.L, setsAsLists(e))
		}
		return o
	case "map":
		o := &idl.Val{Cat: "map", M: [][2]*idl.Val{}}
		for _, e := range v.M {
			o.M = append(o.M, [2]*idl.Val{setsAsLists(e[0]), setsAsLists(e[1])})
		}
		return o
	case "struct":
		o := &idl.Val{Cat: "struct", Def: v.Def, F: map[int32]*idl.Val{}}
		for id, x := range v.F {
			o.F[id] = setsAsLists(x)
		}
		return o
	}
	return v
}

// modelEqual is structural equality of two object states (C3.8).
func modelEqual(a, b *idl.Val) bool {
	return harness.DeepCanon(setsAsLists(eqState(a))) == harness.DeepCanon(setsAsLists(eqState(b)))
}

// eqState is the Go object state the host builds for a value (see harness.ToJV): present
// fields as given; an absent optional scalar/binary with a declared default holds the default;
// an absent non-optional scalar cannot occur; everything else absent is nil.
func eqState(v *idl.Val) *idl.Val {
	if v == nil {
		return nil
	}
	switch v.Cat {
	case "list", "set":
		o := &idl.Val{Cat: v.Cat, L: []*idl.Val{}}
		for _, e := range v.L {
			o.L = append(o.L, eqState(e))
		}
		return o
	case "map":
		o := &idl.Val{Cat: v.Cat, M: [][2]*idl.Val{}}
		for _, e := range v.M {
			o.M = append(o.M, [2]*idl.Val{eqState(e[0]), eqState(e[1])})
		}
		return o
	case "struct":
		o := &idl.Val{Cat: "struct", Def: v.Def, F: map[int32]*idl.Val{}}
		for _, f := range v.Def.Fields {
			if x, ok := v.F[f.ID]; ok {
				o.F[f.ID] = eqState(x)
				continue
			}
			cat := idl.WireCat(f.Type)
			scalar := cat != "list" && cat != "set" && cat != "map" && cat != "struct"
			if scalar && f.Default != nil && v.Def.EffReq(f) == idl.ReqOptional {
				if dv := idl.DefaultOf(f); dv != nil {
					o.F[f.ID] = dv
				}
			} else if scalar && cat != "binary" && v.Def.EffReq(f) != idl.ReqOptional {
				// left at the constructor's value: default or zero
				if dv := idl.DefaultOf(f); dv != nil {
					o.F[f.ID] = dv
				} else {
					o.F[f.ID] = idl.ZeroOf(f.Type)
				}
			}
		}
		return o
	case "double":
		if v.D == 0 {
			return &idl.Val{Cat: "double", D: 0} // Go ==: -0 equals +0
		}
	}
	return v
}

// hasStructKey reports whether the value holds a non-empty map with struct keys.
func hasStructKey(v *idl.Val) bool {
	if v == nil {
		return false
	}
	switch v.Cat {
	case "list", "set":
		for _, e := range v.L {
			if hasStructKey(e) {
				return true
			}
		}
	case "map":
		for _, e := range v.M {
			if e[0].Cat == "struct" || hasStructKey(e[0]) || hasStructKey(e[1]) {
				return true
			}
		}
	case "struct":
		for _, x := range v.F {
			if hasStructKey(x) {
				return true
			}
		}
	}
	return false
}

// mutate changes exactly one leaf / size / presence somewhere in a copy of v.
func mutate(rng *vlib.Rng, v *idl.Val, g *idl.ValueGen) (*idl.Val, string) {
	c := v.Clone()
	type site struct {
		apply func() string
	}
	var sites []site
	var walk func(x *idl.Val, t *idl.Type, depth int)
	walkStruct := func(x *idl.Val, depth int) {}
	walk = func(x *idl.Val, t *idl.Type, depth int) {
		if x == nil {
			return
		}
		switch x.Cat {
		case "bool":
			sites = append(sites, site{func() string { x.B = !x.B; return fmt.Sprintf("bool@%d", depth) }})
		case "i8", "i16", "i32", "i64":
			sites = append(sites, site{func() string {
				if x.I > 0 {
					x.I--
				} else {
					x.I++
				}
				return fmt.Sprintf("%s@%d", x.Cat, depth)
			}})
		case "enum":
			sites = append(sites, site{func() string { x.I ^= 1; return fmt.Sprintf("enum@%d", depth) }})
		case "double":
			sites = append(sites, site{func() string {
				if x.D == 0 || math.IsInf(x.D, 0) {
					x.D = 3.25
				} else {
					x.D = -x.D
				}
				return fmt.Sprintf("double@%d", depth)
			}})
		case "string", "binary":
			sites = append(sites, site{func() string {
				if len(x.S) > 0 && rng.Bool() {
					x.S = x.S[:len(x.S)-1]
				} else {
					x.S += "~"
				}
				return fmt.Sprintf("%s@%d", x.Cat, depth)
			}})
		case "list", "set":
			r := t.Resolve()
			cat := x.Cat
			sites = append(sites, site{func() string {
				if len(x.L) > 0 && rng.Bool() {
					x.L = x.L[:len(x.L)-1]
					return fmt.Sprintf("%s-shrink@%d", cat, depth)
				}
				if e := g.Gen(r.Elem, 3); e != nil {
					x.L = append(x.L, e)
				}
				return fmt.Sprintf("%s-grow@%d", cat, depth)
			}})
			if len(x.L) >= 2 {
				sites = append(sites, site{func() string {
					x.L[0], x.L[len(x.L)-1] = x.L[len(x.L)-1], x.L[0]
					return fmt.Sprintf("%s-swap@%d", cat, depth)
				}})
			}
			for _, e := range x.L {
				walk(e, r.Elem, depth+1)
			}
		case "map":
			r := t.Resolve()
			sites = append(sites, site{func() string {
				if len(x.M) > 0 && rng.Bool() {
					x.M = x.M[:len(x.M)-1]
					return fmt.Sprintf("map-shrink@%d", depth)
				}
				k, e := g.Gen(r.Key, 3), g.Gen(r.Elem, 3)
				if k != nil && e != nil {
					for _, p := range x.M {
						if p[0].Canon() == k.Canon() {
							return fmt.Sprintf("map-noop@%d", depth)
						}
					}
					x.M = append(x.M, [2]*idl.Val{k, e})
				}
				return fmt.Sprintf("map-grow@%d", depth)
			}})
			for _, e := range x.M {
				if e[0].Cat != "struct" {
					walk(e[1], r.Elem, depth+1)
				}
			}
		case "struct":
			d := x.Def
			for _, f := range d.Fields {
				f := f
				fx, present := x.F[f.ID]
				cat := idl.WireCat(f.Type)
				if d.Kind != idl.KUnion && d.EffReq(f) == idl.ReqOptional {
					sites = append(sites, site{func() string {
						if present {
							delete(x.F, f.ID)
							return fmt.Sprintf("optional-%s-unset@%d", cat, depth)
						}
						if nv := g.Gen(f.Type, 3); nv != nil {
							x.F[f.ID] = nv
						}
						return fmt.Sprintf("optional-%s-set@%d", cat, depth)
					}})
				}
				if present && (cat == "list" || cat == "set" || cat == "map") && d.EffReq(f) == idl.ReqOptional && (len(fx.L) == 0 && len(fx.M) == 0) {
					sites = append(sites, site{func() string { delete(x.F, f.ID); return fmt.Sprintf("empty-to-nil-%s@%d", cat, depth) }})
				}
				if present {
					walk(fx, f.Type, depth+1)
				}
			}
		}
	}
	_ = walkStruct
	walk(c, &idl.Type{Name: v.Def.Name, Ref: v.Def}, 0)
	if len(sites) == 0 {
		return c, "none"
	}
	return c, sites[rng.Intn(len(sites))].apply()
}

type c18Case struct {
	kind   string // pair | set-write
	def    *idl.Def
	a, b   *idl.Val
	equal  bool
	mut    string
	dupSet bool
}

func C18(r *vlib.Run) {
	r.Rule = "one evaluation = one pair (x,y) of values of a struct-like type of a gen_deep_equal program for which x.DeepEqual(y), y.DeepEqual(x), reflexivity, an independently built copy and nil receivers/arguments were executed and compared with model equality (C3.8), or one Write of a value whose set field does / does not hold two equal elements; pairs are independent values, copies and single mutations (leaf change, size change, swap, optional presence flip, empty->nil) at every depth; distinct = mutation-site signatures (kind@depth) and set-check classes"
	r.Assume("NaN is not generated; sets are compared position by position as the property states; maps with struct-typed keys are compared by pointer identity in Go and are reported separately")
	s, err := harness.NewScratch("c18")
	if err != nil {
		vlib.Fatal("C18", "scratch: %v", err)
	}
	defer s.Close()
	rng := vlib.NewRng(r.Seed, "c18")
	var units []*harness.Unit
	n := 0
	add := func(p *idl.Program, opts []string) {
		n++
		units = append(units, &harness.Unit{Name: fmt.Sprintf("u%04d", n), Prog: p, Backend: "go", Opts: opts, Recurse: true})
	}
	for i, p := range idl.KitchenSinks()[:3] {
		if i%2 == 0 {
			add(p, []string{"gen_deep_equal"})
		} else {
			add(p, []string{"gen_deep_equal", "gen_setter", "naming_style=golint"})
		}
	}
	np := r.N(12, 150)
	for i := 0; i < np; i++ {
		p := idl.Generate(rng.Fork("p"), c18Opts(rng))
		switch i % 3 {
		case 0:
			add(p, []string{"gen_deep_equal"})
		case 1:
			add(p, []string{"gen_deep_equal", "validate_set=false"})
		case 2:
			add(p, []string{"gen_deep_equal", "keep_unknown_fields", "nil_safe"})
		}
	}
	ok := buildUnits(r, "C18", s, units)
	for _, u := range ok {
		tm, err := describe(u)
		if err != nil {
			r.Inconclusive(u.Name + ": " + err.Error())
			continue
		}
		c18Unit(r, rng.Fork(u.Name), u, tm)
	}
}

func c18Unit(r *vlib.Run, rng *vlib.Rng, u *harness.Unit, tm *typeMap) {
	cfg := optKey(u.Opts)
	validate := !strings.Contains(cfg, "validate_set=false")
	var cmds []map[string]interface{}
	var cases []c18Case
	npairs := r.N(24, 60)
	for _, d := range tm.defs {
		if tm.synth[d] {
			continue
		}
		key := tm.key[d]
		g := &idl.ValueGen{Rng: rng.Fork(d.Name), MaxDepth: 3, NoNaN: true}
		for k := 0; k < npairs; k++ {
			g.Mode = []int{0, 2, 0, 1}[k%4]
			a := g.GenStruct(d, 0)
			var b *idl.Val
			mut := "independent"
			switch {
			case k%6 == 0:
				b = g.GenStruct(d, 0)
			case k%6 == 1:
				b, mut = a.Clone(), "copy"
			default:
				b, mut = mutate(rng, a, g)
			}
			cmds = append(cmds, map[string]interface{}{"op": "deepequal", "type": key, "a": harness.ToJV(a), "b": harness.ToJV(b)})
			cases = append(cases, c18Case{kind: "pair", def: d, a: a, b: b, equal: modelEqual(a, b), mut: mut})
		}
		// set uniqueness on Write
		for _, f := range d.Fields {
			if idl.WireCat(f.Type) != "set" {
				continue
			}
			for k := 0; k < 4; k++ {
				g.Mode = 0
				v := g.GenStruct(d, 0)
				g.Mode = 2 // non-empty sets
				sv := g.Gen(f.Type, 1)
				g.Mode = 0
				if sv == nil {
					continue
				}
				dup := false
				if k%2 == 0 && len(sv.L) > 0 {
					// append a model-equal but separately built copy of an element
					sv.L = append(sv.L, sv.L[rng.Intn(len(sv.L))].Clone())
					dup = true
				}
				v.F[f.ID] = sv
				if d.Kind == idl.KUnion {
					for id := range v.F {
						if id != f.ID {
							delete(v.F, id)
						}
					}
				}
				jv := harness.ToJV(v)
				flavour := ""
				elemT := f.Type.Resolve().Elem
				ecat := idl.WireCat(elemT)
				if k == 3 && (ecat == "list" || ecat == "set" || ecat == "map") {
					// two elements that differ only in nil vs empty container: equal by C3.8
					empty := idl.ZeroOf(elemT)
					sv.L = []*idl.Val{empty}
					v.F[f.ID] = sv
					jv = harness.ToJV(v)
					fs := jv.(map[string]interface{})["f"].(map[string]interface{})
					fs[fmt.Sprint(f.ID)] = append(fs[fmt.Sprint(f.ID)].([]interface{}), nil)
					dup, flavour = true, "/nil-vs-empty-element"
				} else if k == 3 && ecat == "struct" {
					// two struct elements that differ only in an optional container being unset vs empty
					sd := elemT.Resolve().Ref
					for _, ef := range sd.Fields {
						c := idl.WireCat(ef.Type)
						if sd.EffReq(ef) != idl.ReqOptional || sd.Kind == idl.KUnion || ef.Default != nil || !(c == "list" || c == "set" || c == "map") {
							continue
						}
						e1 := g.GenStruct(sd, 2)
						e1.F[ef.ID] = idl.ZeroOf(ef.Type)
						e2 := e1.Clone()
						delete(e2.F, ef.ID)
						sv.L = []*idl.Val{e1, e2}
						v.F[f.ID] = sv
						jv = harness.ToJV(v)
						dup, flavour = true, "/unset-vs-empty-field"
						break
					}
				}
				cmds = append(cmds, map[string]interface{}{"op": "write", "type": key, "val": jv})
				cases = append(cases, c18Case{kind: "set-write", def: d, a: v, dupSet: dup, mut: f.Type.Shape(1) + flavour})
			}
		}
	}
	if len(cmds) == 0 {
		return
	}
	res, fatal, last, stderr := u.RunGuest("c18", cmds)
	if fatal != "" && fatal != "timeout" {
		c := c18Case{}
		if last >= 0 && last < len(cases) {
			c = cases[last]
		}
		r.Violation("C18/process-death/"+fatal, fmt.Sprintf("config [%s]: guest died (%s) in %s: %s", cfg, fatal, c.kind, vlib.Trunc(stderr, 1200)), c18Replay(u, c))
	} else if fatal == "timeout" {
		r.Inconclusive("guest watchdog in unit " + u.Name)
	}
	for i, c := range cases {
		gr := res[i]
		if gr == nil {
			continue
		}
		if p := guestProblem(gr); p != "" {
			r.Count("harness_problems", 1)
			if r.Counter("harness_problems") <= 5 {
				fmt.Printf("NOTE property=C18 unit %s: harness problem: %s\n", u.Name, p)
			}
			continue
		}
		bad := func(k, f string, a ...interface{}) {
			r.Violation("C18/"+k, fmt.Sprintf("config [%s] type %s (%s): ", cfg, c.def.Name, c.mut)+fmt.Sprintf(f, a...)+"\n x = "+vlib.Trunc(c.a.Canon(), 900)+c18B(c), c18Replay(u, c))
		}
		r.Eval(1)
		if pn := strOf(gr["panic"]); pn != "" {
			bad("panic", "panic: %s", pn)
			continue
		}
		switch c.kind {
		case "pair":
			for _, k := range []string{"ab", "ba", "aa", "bb", "a_nil", "nil_a", "nil_nil", "a_copy"} {
				if pn := strOf(gr[k+"_panic"]); pn != "" {
					bad("panic/"+k, "DeepEqual panicked (%s): %s", k, pn)
				}
			}
			structKeys := hasStructKey(c.a) || hasStructKey(c.b)
			ab, _ := gr["ab"].(bool)
			ba, _ := gr["ba"].(bool)
			if _, ok := gr["ab"]; ok {
				if ab != ba {
					bad("asymmetric", "x.DeepEqual(y)=%v but y.DeepEqual(x)=%v", ab, ba)
				}
				if ab != c.equal {
					k := "says-equal-for-different-values/" + c.mut
					if c.equal {
						k = "says-different-for-equal-values/" + c.mut
					}
					if structKeys && c.equal && !ab {
						k = "struct-map-keys-compared-by-pointer"
					}
					bad(k, "x.DeepEqual(y)=%v, structural equality is %v", ab, c.equal)
				}
			}
			if v, ok := gr["aa"].(bool); ok && !v {
				bad("not-reflexive", "x.DeepEqual(x)=false")
			}
			if v, ok := gr["a_copy"].(bool); ok && !v {
				k := "copy-not-equal"
				if structKeys {
					k = "struct-map-keys-compared-by-pointer"
				}
				bad(k, "x.DeepEqual(independently built copy of x)=false")
			}
			if v, ok := gr["a_nil"].(bool); ok && v {
				bad("equal-to-nil", "x.DeepEqual(nil)=true for a non-nil x")
			}
			if v, ok := gr["nil_a"].(bool); ok && v {
				bad("nil-equal-to-value", "(nil).DeepEqual(x)=true for a non-nil x")
			}
			if v, ok := gr["nil_nil"].(bool); ok && !v {
				bad("nil-not-equal-nil", "(nil).DeepEqual(nil)=false")
			}
			r.Sigf("pair/%s/equal=%v", c.mut, c.equal)
		case "set-write":
			errS := strOf(gr["err"])
			if validate {
				if c.dupSet && errS == "" {
					bad("duplicate-set-element-accepted/"+c.mut, "Write accepted a set holding two equal elements")
				}
				if !c.dupSet && errS != "" {
					bad("set-rejected-without-duplicates/"+c.mut, "Write rejected a set without equal elements: %s", errS)
				}
			} else if !c.dupSet && errS != "" {
				bad("write-error", "Write failed: %s", errS)
			}
			r.Sigf("set-write/%s/dup=%v/validate=%v", c.mut, c.dupSet, validate)
		}
		if i%701 == 0 {
			r.Sample(map[string]interface{}{"type": c.def.Name, "mutation": c.mut, "model_equal": c.equal, "x": vlib.Trunc(c.a.Canon(), 200)})
		}
	}
}

func c18B(c c18Case) string {
	if c.b == nil {
		return ""
	}
	return "\n y = " + vlib.Trunc(c.b.Canon(), 900)
}

func c18Replay(u *harness.Unit, c c18Case) vlib.Replay {
	rp := vlib.Replay{}
	for k, v := range u.Texts {
		rp["idl/"+k] = v
	}
	rp["options.txt"] = strings.Join(u.Opts, ",") + "\n"
	if c.a != nil {
		rp["x.txt"] = c.a.Canon() + "\n"
	}
	if c.b != nil {
		rp["y.txt"] = c.b.Canon() + "\n"
	}
	return rp
}
