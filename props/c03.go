package props

// C03 — The parser is total and the AST is faithful to the source text.
//
// (a) totality: hostile byte strings are fed to parser.ParseString in child processes (one per
//     batch, inputs logged before each call) under recover(); the child reports panics and its
//     own CPU time per input; a fatal error is caught through the exit status + logged input.
// (b) faithfulness: rendered models x layouts, AST compared field by field with the model.

import (
	"bufio"
	"encoding/hex"
	"fmt"
	"os"
	"os/exec"
	"path/filepath"
	"strings"
	"syscall"
	"time"

	"github.com/cloudwego/thriftgo/parser"

	"verif/idl"
	"verif/vlib"
)

func c03GenOpts(rng *vlib.Rng) idl.GenOpts {
	o := idl.DefaultOpts()
	o.Files = 1
	o.Structs = rng.Range(1, 4)
	o.Annotations = 2
	o.TypeAnn = true
	o.HexIDs = true
	o.ExpDoubles = true
	o.CppIncludes = true
	o.ExtraNS = true
	o.DupNS = true
	o.HardLiterals = true
	o.ComposedLiterals = true // quotes after backslash pairs ("x\\\"y"), over-escaped quotes, entities
	o.GoEscapes = false
	o.NameStress = 2
	o.UnionDefault = true
	o.TypedefEnumSel = true
	return o
}

func c03Faithful(r *vlib.Run) {
	rng := vlib.NewRng(r.Seed, "c03models")
	nModels := r.N(400, 6000)
	nLayouts := 8
	for m := 0; m < nModels; m++ {
		p := idl.Generate(rng.Fork("m"), c03GenOpts(rng))
		f := p.Main()
		f.Includes = nil // single-file documents: include resolution is C04/C05's business
		stripForeign(f)
		var firstAST string
		for l := 0; l < nLayouts; l++ {
			var lay *idl.Layout
			if l == 0 {
				lay = idl.PlainLayout()
			} else {
				lay = idl.RandomLayout(rng.Fork("l"))
			}
			text := idl.Render(f, lay)
			ast, err := c03Parse(text)
			r.Eval(1)
			if err != nil {
				r.Violation("C03/grammatical-document-rejected/"+errKind(err.Error()), fmt.Sprintf("layout %s\nerror: %v\n--- text ---\n%s", lay, err, vlib.Trunc(text, 3000)), vlib.Replay{"doc.thrift": text})
				continue
			}
			diffs := idl.CompareAST(f, ast)
			for _, d := range diffs {
				r.Violation("C03/ast/"+d.Site, fmt.Sprintf("%s\nlayout %s\n--- text ---\n%s", d, lay, vlib.Trunc(text, 3000)), vlib.Replay{"doc.thrift": text})
			}
			// layout independence: serialised AST (comments aside) identical across layouts
			s := astFingerprint(ast)
			if l == 0 {
				firstAST = s
			} else if s != firstAST && len(diffs) == 0 {
				r.Violation("C03/layout-dependence", fmt.Sprintf("AST differs between plain layout and %s\n--- text ---\n%s", lay, vlib.Trunc(text, 3000)), vlib.Replay{"doc.thrift": text})
			}
			r.Sigf("layout/sep%d-q%d-c%d-s%d-i%d", lay.Sep, lay.Quote, lay.Comments, lay.Space, lay.IntSpell)
			if m < 2 && l == 1 {
				r.Sample(map[string]string{"layout": lay.String(), "text": vlib.Trunc(text, 1200)})
			}
		}
		c03ModelSigs(r, f)
	}
}

func errKind(s string) string {
	if strings.Contains(s, "parse error") {
		return "parse-error"
	}
	if i := strings.Index(s, ":"); i > 0 && i < 40 {
		return strings.ReplaceAll(s[:i], " ", "-")
	}
	return "other"
}

func stripForeign(f *idl.File) {
	// remove definitions that refer to other files (single-file documents)
	foreign := func(t *idl.Type) bool { return false }
	var ft func(t *idl.Type) bool
	ft = func(t *idl.Type) bool {
		if t == nil {
			return false
		}
		if t.Ref != nil && t.Ref.File != f {
			return true
		}
		return ft(t.Key) || ft(t.Elem)
	}
	foreign = ft
	var fv func(v *idl.Value) bool
	fv = func(v *idl.Value) bool {
		if v == nil {
			return false
		}
		if v.ToConst != nil && v.ToConst.File != f || v.ToEnum != nil && v.Kind == idl.VIdent && (v.ToEnum.File != f || v.ViaType != nil && v.ViaType.File != f) {
			return true
		}
		for _, e := range v.List {
			if fv(e) {
				return true
			}
		}
		for _, e := range v.Map {
			if fv(e[0]) || fv(e[1]) {
				return true
			}
		}
		return false
	}
	_ = foreign
	_ = fv
	// the parser does not resolve anything, so foreign references are harmless text: keep them.
}

func c03Parse(text string) (ast *parser.Thrift, err error) {
	defer func() {
		if e := recover(); e != nil {
			err = fmt.Errorf("PANIC: %v", e)
		}
	}()
	return parser.ParseString("doc.thrift", text)
}

// astFingerprint serialises the AST without comments.
func astFingerprint(ast *parser.Thrift) string {
	var sb strings.Builder
	var ty func(t *parser.Type)
	ty = func(t *parser.Type) {
		if t == nil {
			sb.WriteString("<nil>")
			return
		}
		fmt.Fprintf(&sb, "T(%s|%s|", t.Name, t.CppType)
		for _, a := range t.Annotations {
			fmt.Fprintf(&sb, "%s=%q;", a.Key, a.Values)
		}
		ty(t.KeyType)
		ty(t.ValueType)
		sb.WriteString(")")
	}
	an := func(as parser.Annotations) {
		for _, a := range as {
			fmt.Fprintf(&sb, "@%s=%q;", a.Key, a.Values)
		}
	}
	var cv func(v *parser.ConstValue)
	cv = func(v *parser.ConstValue) {
		if v == nil || v.TypedValue == nil {
			sb.WriteString("<nil>")
			return
		}
		tv := v.TypedValue
		fmt.Fprintf(&sb, "V%d(", v.Type)
		switch {
		case tv.Double != nil:
			fmt.Fprintf(&sb, "%x", *tv.Double)
		case tv.Int != nil:
			fmt.Fprint(&sb, *tv.Int)
		case tv.Literal != nil:
			fmt.Fprintf(&sb, "%q", *tv.Literal)
		case tv.Identifier != nil:
			sb.WriteString(*tv.Identifier)
		}
		for _, e := range tv.List {
			cv(e)
		}
		for _, e := range tv.Map {
			cv(e.Key)
			sb.WriteString(":")
			cv(e.Value)
		}
		sb.WriteString(")")
	}
	fl := func(fs []*parser.Field) {
		for _, f := range fs {
			fmt.Fprintf(&sb, "F(%d|%s|%v|", f.ID, f.Name, f.Requiredness)
			ty(f.Type)
			cv(f.Default)
			an(f.Annotations)
			sb.WriteString(")")
		}
	}
	for _, i := range ast.Includes {
		fmt.Fprintf(&sb, "I(%s)", i.Path)
	}
	fmt.Fprintf(&sb, "C%q", ast.CppIncludes)
	for _, n := range ast.Namespaces {
		fmt.Fprintf(&sb, "N(%s|%s|", n.Language, n.Name)
		an(n.Annotations)
		sb.WriteString(")")
	}
	for _, t := range ast.Typedefs {
		fmt.Fprintf(&sb, "TD(%s|", t.Alias)
		ty(t.Type)
		an(t.Annotations)
		sb.WriteString(")")
	}
	for _, c := range ast.Constants {
		fmt.Fprintf(&sb, "K(%s|", c.Name)
		ty(c.Type)
		cv(c.Value)
		an(c.Annotations)
		sb.WriteString(")")
	}
	for _, e := range ast.Enums {
		fmt.Fprintf(&sb, "E(%s|", e.Name)
		for _, v := range e.Values {
			fmt.Fprintf(&sb, "%s=%d", v.Name, v.Value)
			an(v.Annotations)
		}
		an(e.Annotations)
		sb.WriteString(")")
	}
	for _, ss := range [][]*parser.StructLike{ast.Structs, ast.Unions, ast.Exceptions} {
		for _, s := range ss {
			fmt.Fprintf(&sb, "S(%s|%s|", s.Category, s.Name)
			fl(s.Fields)
			an(s.Annotations)
			sb.WriteString(")")
		}
	}
	for _, s := range ast.Services {
		fmt.Fprintf(&sb, "SV(%s|%s|", s.Name, s.Extends)
		for _, f := range s.Functions {
			fmt.Fprintf(&sb, "FN(%s|%v|%v|", f.Name, f.Oneway, f.Void)
			ty(f.FunctionType)
			fl(f.Arguments)
			sb.WriteString("|")
			fl(f.Throws)
			an(f.Annotations)
			sb.WriteString(")")
		}
		an(s.Annotations)
		sb.WriteString(")")
	}
	return sb.String()
}

// c03ModelSigs records which grammar elements the compared models actually contained.
func c03ModelSigs(r *vlib.Run, f *idl.File) {
	var walkV func(v *idl.Value)
	walkV = func(v *idl.Value) {
		if v == nil {
			return
		}
		switch v.Kind {
		case idl.VInt:
			r.Sigf("model/int-spell%d-neg%v", v.Spell, v.Int < 0)
		case idl.VDouble:
			r.Sigf("model/double-exp%v", strings.ContainsAny(v.DblTxt, "eE"))
		case idl.VString:
			r.Sigf("model/literal-dq%v-sq%v-bs%v-empty%v", strings.Contains(v.Str, `"`), strings.Contains(v.Str, `'`), strings.Contains(v.Str, `\`), v.Str == "")
			if strings.Contains(v.Str, `\\"`) || strings.Contains(v.Str, `\\'`) {
				r.Sig("model/literal-quote-after-backslash-pair")
			}
		case idl.VIdent:
			r.Sigf("model/ident-dots%d", strings.Count(v.Ident, "."))
		case idl.VList:
			r.Sigf("model/list-len%d", min(len(v.List), 3))
		case idl.VMap:
			r.Sigf("model/map-len%d", min(len(v.Map), 3))
		}
		for _, e := range v.List {
			walkV(e)
		}
		for _, e := range v.Map {
			walkV(e[0])
			walkV(e[1])
		}
	}
	var walkT func(site string, t *idl.Type)
	walkT = func(site string, t *idl.Type) {
		if t == nil {
			return
		}
		r.Sigf("model/type-%s-%s-ann%v-cpp%v", site, t.Shape(0), len(t.Ann) > 0, t.CppType != "")
		walkT("key", t.Key)
		walkT("elem", t.Elem)
	}
	fields := func(site string, fs []*idl.Field) {
		for _, fl := range fs {
			r.Sigf("model/%s-field-id[explicit=%v,spell=%d,neg=%v]-req%d-default%v-ann%v", site, fl.ExplicitID, fl.IDSpell, fl.ID < 0, fl.Req, fl.Default != nil, len(fl.Ann) > 0)
			walkT(site, fl.Type)
			walkV(fl.Default)
		}
	}
	langs := map[string]bool{}
	for _, ns := range f.Namespaces {
		r.Sigf("model/namespace-%s-ann%v", ns.Lang, len(ns.Ann) > 0)
		if langs[ns.Lang] {
			r.Sig("model/namespace-language-declared-again")
		}
		langs[ns.Lang] = true
	}
	for _, d := range f.Defs {
		keys, _ := idl.Accumulate(d.Ann)
		r.Sigf("model/def-%s-ann%v-repeatedkey%v", d.Kind, len(d.Ann) > 0, len(keys) < len(d.Ann))
		switch d.Kind {
		case idl.KTypedef:
			walkT("typedef", d.Type)
		case idl.KConst:
			walkT("const", d.Type)
			walkV(d.Value)
		case idl.KEnum:
			for _, ev := range d.EnumVals {
				r.Sigf("model/enumval-explicit%v-spell%d-neg%v-ann%v", ev.Explicit, ev.Spell, ev.Value < 0, len(ev.Ann) > 0)
			}
			if len(d.EnumVals) == 0 {
				r.Sig("model/enum-empty")
			}
		case idl.KStruct, idl.KUnion, idl.KException:
			fields(d.Kind.String(), d.Fields)
			if len(d.Fields) == 0 {
				r.Sig("model/" + d.Kind.String() + "-empty")
			}
		case idl.KService:
			r.Sigf("model/service-extends%v-funcs%d", d.Extends != nil, min(len(d.Funcs), 3))
			for _, fn := range d.Funcs {
				r.Sigf("model/func-oneway%v-void%v-args%d-throws%d-ann%v", fn.Oneway, fn.Void, min(len(fn.Args), 3), min(len(fn.Throws), 2), len(fn.Ann) > 0)
				fields("arg", fn.Args)
				fields("throws", fn.Throws)
				if !fn.Void {
					walkT("return", fn.Ret)
				}
			}
		}
	}
}

func min(a, b int) int {
	if a < b {
		return a
	}
	return b
}

// ---------------- totality ----------------

// C03Child is the body of the child process: reads inputs from a file, logs each input's index
// before parsing it, reports panics and CPU time per input.
func C03Child(inputFile, logFile string) {
	data, err := os.ReadFile(inputFile)
	if err != nil {
		fmt.Println("child: cannot read inputs:", err)
		os.Exit(3)
	}
	lg, _ := os.Create(logFile)
	defer lg.Close()
	lines := strings.Split(strings.TrimSpace(string(data)), "\n")
	var maxCPU time.Duration
	maxIdx := -1
	for i, ln := range lines {
		in, err := hex.DecodeString(ln)
		if err != nil {
			continue
		}
		fmt.Fprintf(lg, "BEGIN %d\n", i)
		lg.Sync()
		t0 := cpuTime()
		func() {
			defer func() {
				if e := recover(); e != nil {
					fmt.Fprintf(lg, "PANIC %d %s\n", i, strings.ReplaceAll(fmt.Sprint(e), "\n", " "))
				}
			}()
			ast, err := parser.ParseString("in.thrift", string(in))
			if ast == nil && err == nil {
				fmt.Fprintf(lg, "NEITHER %d\n", i)
			}
			if ast != nil && err != nil {
				fmt.Fprintf(lg, "BOTH %d\n", i)
			}
			if err == nil {
				fmt.Fprintf(lg, "ACCEPT %d\n", i)
			}
		}()
		dt := cpuTime() - t0
		if dt > maxCPU {
			maxCPU, maxIdx = dt, i
		}
		if dt > 20*time.Second {
			fmt.Fprintf(lg, "SLOW %d %d\n", i, dt.Milliseconds())
		}
		fmt.Fprintf(lg, "END %d\n", i)
	}
	fmt.Fprintf(lg, "MAXCPU %d %d\n", maxIdx, maxCPU.Microseconds())
	fmt.Fprintf(lg, "DONE\n")
}

func cpuTime() time.Duration {
	var ru syscall.Rusage
	syscall.Getrusage(syscall.RUSAGE_SELF, &ru)
	return time.Duration(ru.Utime.Nano() + ru.Stime.Nano())
}

var c03Alphabet = []string{"struct", "union", "exception", "service", "enum", "typedef", "const", "include", "cpp_include", "namespace", "extends", "throws", "oneway", "void",
	"required", "optional", "map", "set", "list", "cpp_type", "bool", "byte", "i8", "i16", "i32", "i64", "double", "string", "binary",
	"{", "}", "(", ")", "[", "]", "<", ">", ",", ";", ":", "=", "*", ".", "\"", "'", "\\", "//", "/*", "*/", "#", "\n", "\r\n", " ", "\t",
	"0x", "0o", "1", "-1", "+5", "1.5", "1e9", ".5", "e", "E", "x", "Foo", "a.b", "_", "a.b.c", "0x1F", "99999999999999999999", "\"str\"", "'s'", "\"\\\"\"", "\x00", "\xff", "é", "日"}

func c03TotalityInputs(r *vlib.Run, rng *vlib.Rng, n int) [][]byte {
	var out [][]byte
	add := func(b []byte) {
		if len(b) > 65536 {
			b = b[:65536]
		}
		out = append(out, b)
	}
	// valid documents to mutate
	var docs []string
	for i := 0; i < 40; i++ {
		p := idl.Generate(rng.Fork("d"), c03GenOpts(rng))
		docs = append(docs, idl.Render(p.Main(), idl.RandomLayout(rng.Fork("l"))))
	}
	for i := 0; i < n; i++ {
		switch i % 5 {
		case 0: // random bytes
			add(rng.Bytes(rng.Intn(200)))
			r.Sig("totality/random-bytes")
		case 1: // token soup
			var sb strings.Builder
			k := rng.Range(1, 60)
			for j := 0; j < k; j++ {
				sb.WriteString(c03Alphabet[rng.Intn(len(c03Alphabet))])
				if rng.Bool() {
					sb.WriteString(" ")
				}
			}
			add([]byte(sb.String()))
			r.Sig("totality/token-soup")
		case 2, 3: // mutated valid document
			d := []byte(docs[rng.Intn(len(docs))])
			if len(d) > 4000 {
				d = d[:4000]
			}
			for m := rng.Range(1, 4); m > 0 && len(d) > 2; m-- {
				a, b := rng.Intn(len(d)), rng.Intn(len(d))
				if a > b {
					a, b = b, a
				}
				if b-a > 40 {
					b = a + rng.Intn(40)
				}
				switch rng.Intn(6) {
				case 0:
					d = append(d[:a:a], d[b:]...) // delete
					r.Sig("totality/mutate-delete")
				case 1:
					d = append(d[:b:b], append(append([]byte{}, d[a:b]...), d[b:]...)...) // duplicate
					r.Sig("totality/mutate-duplicate")
				case 2:
					d = d[:a] // truncate
					r.Sig("totality/mutate-truncate")
				case 3:
					d[a] = byte(rng.Uint64())
					r.Sig("totality/mutate-byte")
				case 4:
					ins := c03Alphabet[rng.Intn(len(c03Alphabet))]
					d = append(d[:a:a], append([]byte(ins), d[a:]...)...)
					r.Sig("totality/mutate-insert-token")
				case 5:
					d[a], d[b%len(d)] = d[b%len(d)], d[a]
					r.Sig("totality/mutate-swap")
				}
			}
			add(d)
		case 4: // unterminated / odd literals and numbers
			pool := []string{"const string s = \"abc", "const string s = 'abc\\", "const string s = \"a\\", "struct S { 1: i32 a = 0x }", "const i64 x = 99999999999999999999", "const double d = 1e", "const double d = 1e99999", "const i32 x = 0o9",
				"struct S { 99999999999: i32 a }", "struct S { 0xFFFFFFFFF: i32 a }", "enum E { A = 99999999999999999999 }", "/* unterminated", "struct S { 1: list< a }", "typedef map<string,> X", "const list<i32> l = [1,2", "const map<i32,i32> m = {1:2, 3}", "namespace * ", "include", "struct", "service S extends {}", "struct S { 1: i32 a (x = ) }", "struct S {} (a = \"b\"", "\xef\xbb\xbfstruct S {}", "struct S { -0x1: i32 a }", "struct S { +: i32 a }"}
			add([]byte(pool[rng.Intn(len(pool))] + string(rng.Bytes(rng.Intn(3)))))
			r.Sig("totality/odd-literals")
		}
	}
	// adversarial scaling series
	sizes := []int{1 << 10, 4 << 10, 16 << 10, 64 << 10}
	if !r.Thorough() {
		sizes = []int{1 << 10, 4 << 10, 16 << 10, 64 << 10}
	}
	for _, sz := range sizes {
		rep := func(s string) string { return strings.Repeat(s, sz/len(s)) }
		series := map[string]string{
			"deep-list":      "typedef " + rep("list<") + "i32" + rep(">") + " X",
			"deep-list-open": "typedef " + rep("list<"),
			"deep-bracket":   "const list<i32> x = " + rep("["),
			"deep-brace":     "const map<i32,i32> x = " + rep("{"),
			"deep-nested":    "const list<i32> x = " + rep("[") + rep("]"),
			"digits":         "const i64 x = " + rep("9"),
			"backslashes":    "const string s = \"" + rep("\\") + "\"",
			"backslash-open": "const string s = \"" + rep("\\"),
			"comment-run":    rep("/**/"),
			"comment-open":   "/*" + rep("*"),
			"line-comments":  rep("#\n"),
			"quotes":         "const string s = " + rep("\"\""),
			"idents":         "struct S { " + rep("a.") + " b }",
			"annotations":    "struct S {} (" + rep("a=\"b\",") + ")",
			"spaces":         rep(" ") + "struct",
			"parens":         "service S { void f" + rep("("),
			"fields":         "struct S {" + rep("1:i32 a,") + "}",
			"enum-vals":      "enum E {" + rep("A,") + "}",
			"struct-kw":      rep("struct "),
			"mixed-ws":       rep("\r\n\t\v "),
		}
		for name, s := range series {
			add([]byte(s))
			r.Sigf("totality/scale-%s-%dk", name, sz>>10)
		}
	}
	return out
}

func c03Totality(r *vlib.Run) {
	rng := vlib.NewRng(r.Seed, "c03total")
	n := r.N(200000, 2000000)
	inputs := c03TotalityInputs(r, rng, n)
	dir := vlib.ScratchBase("vf-c03-")
	defer os.RemoveAll(dir)
	self, _ := os.Executable()
	batch := 5000
	type job struct{ lo, hi int }
	var jobs []job
	for lo := 0; lo < len(inputs); lo += batch {
		hi := lo + batch
		if hi > len(inputs) {
			hi = len(inputs)
		}
		jobs = append(jobs, job{lo, hi})
	}
	type result struct {
		j      job
		log    string
		exit   int
		stderr string
		timed  bool
	}
	results := make(chan result, len(jobs))
	sem := make(chan struct{}, 14)
	for ji, j := range jobs {
		sem <- struct{}{}
		go func(ji int, j job) {
			defer func() { <-sem }()
			inF := filepath.Join(dir, fmt.Sprintf("in%d", ji))
			logF := filepath.Join(dir, fmt.Sprintf("log%d", ji))
			var sb strings.Builder
			for _, in := range inputs[j.lo:j.hi] {
				sb.WriteString(hex.EncodeToString(in))
				sb.WriteString("\n")
			}
			os.WriteFile(inF, []byte(sb.String()), 0o644)
			res := vlib.RunCLI(dir, []string{"GOMAXPROCS=1", "GOTRACEBACK=single"}, 30*time.Minute, self, "--c03-child", inF, logF)
			b, _ := os.ReadFile(logF)
			results <- result{j, string(b), res.Exit, vlib.Trunc(res.Stderr, 3000), res.TimedOut}
		}(ji, j)
	}
	for i := 0; i < cap(sem); i++ {
		sem <- struct{}{}
	}
	close(results)
	var maxCPUus int64
	accepted := 0
	for res := range results {
		done := false
		lastBegin := -1
		sc := bufio.NewScanner(strings.NewReader(res.log))
		sc.Buffer(make([]byte, 1<<20), 1<<24)
		for sc.Scan() {
			var idx int
			var rest string
			ln := sc.Text()
			switch {
			case strings.HasPrefix(ln, "BEGIN "):
				fmt.Sscanf(ln, "BEGIN %d", &lastBegin)
			case strings.HasPrefix(ln, "END "):
				r.Eval(1)
			case strings.HasPrefix(ln, "ACCEPT "):
				accepted++
			case strings.HasPrefix(ln, "PANIC "):
				fmt.Sscanf(ln, "PANIC %d", &idx)
				rest = ln[strings.Index(ln[6:], " ")+7:]
				in := inputs[res.j.lo+idx]
				r.Violation("C03/panic/"+panicKind(rest), fmt.Sprintf("ParseString panicked: %s\ninput (%d bytes): %q", rest, len(in), vlib.Trunc(string(in), 400)), vlib.Replay{"input.thrift": string(in)})
			case strings.HasPrefix(ln, "NEITHER "), strings.HasPrefix(ln, "BOTH "):
				fmt.Sscanf(ln[strings.Index(ln, " ")+1:], "%d", &idx)
				in := inputs[res.j.lo+idx]
				r.Violation("C03/neither-ast-nor-error", fmt.Sprintf("%s on input %q", ln, vlib.Trunc(string(in), 400)), vlib.Replay{"input.thrift": string(in)})
			case strings.HasPrefix(ln, "SLOW "):
				var ms int64
				fmt.Sscanf(ln, "SLOW %d %d", &idx, &ms)
				in := inputs[res.j.lo+idx]
				r.Violation("C03/cpu-bound-exceeded", fmt.Sprintf("parsing %d bytes took %d ms of CPU (bound 20000): %q", len(in), ms, vlib.Trunc(string(in), 200)), vlib.Replay{"input.thrift": string(in)})
			case strings.HasPrefix(ln, "MAXCPU "):
				var us int64
				fmt.Sscanf(ln, "MAXCPU %d %d", &idx, &us)
				if us > maxCPUus {
					maxCPUus = us
				}
			case ln == "DONE":
				done = true
			}
		}
		if !done {
			if res.timed {
				r.Inconclusive(fmt.Sprintf("totality batch %d..%d hit the 30 min watchdog at input %d", res.j.lo, res.j.hi, lastBegin))
				continue
			}
			if lastBegin >= 0 {
				in := inputs[res.j.lo+lastBegin]
				r.Violation("C03/fatal/"+vlib.ClassifyCrash(res.stderr), fmt.Sprintf("child process died (exit %d) while parsing input %d: %q\nstderr: %s", res.exit, lastBegin, vlib.Trunc(string(in), 400), vlib.Trunc(res.stderr, 1500)), vlib.Replay{"input.thrift": string(in)})
			} else {
				vlib.Fatal("C03", "totality child failed before the first input: exit %d %s", res.exit, res.stderr)
			}
		}
	}
	r.SetExtra("totality_inputs", len(inputs))
	r.SetExtra("totality_accepted_inputs", accepted)
	r.SetExtra("totality_max_cpu_us_per_input", maxCPUus)
}

func panicKind(s string) string {
	for _, k := range []string{"index out of range", "nil pointer", "slice bounds", "stack overflow", "out of memory", "invalid memory"} {
		if strings.Contains(s, k) {
			return strings.ReplaceAll(k, " ", "-")
		}
	}
	return "other"
}

func C03(r *vlib.Run) {
	r.Rule = "totality: each evaluation is one ParseString call on a hostile input (random bytes, token soup, mutated valid documents, odd literals/numbers, scaling series to 64 KiB) in a child process with recover() and per-input CPU accounting; faithfulness: each evaluation is one parse of a model rendered under one of 8 layouts, compared field by field with the model and across layouts; distinct = distinct input classes, layout vectors and grammar-element signatures present in the compared models"
	r.Assume("comments are not compared; leading-zero decimals and a backslash before the closing quote are not generated (DESIGN C3.1)")
	c03Faithful(r)
	r.Require("model/literal-quote-after-backslash-pair", "model/namespace-language-declared-again")
	c03Totality(r)
	_ = exec.Command
}
