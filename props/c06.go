package props

// C06 — Constants and default values in Go equal the values written in the IDL.

import (
	"fmt"
	"math"
	"path/filepath"
	"strconv"
	"strings"

	"github.com/cloudwego/thriftgo/generator/backend"
	"github.com/cloudwego/thriftgo/generator/golang"

	"verif/harness"
	"verif/idl"
	"verif/vlib"
)

func c06Opts(rng *vlib.Rng) idl.GenOpts {
	o := idl.DefaultOpts()
	o.Files = rng.Range(1, 3)
	o.Structs = rng.Range(3, 5)
	o.FieldsMax = 8
	o.NameStress = rng.Intn(3)
	o.Annotations = 0
	o.Services = false
	o.UnionDefault = false
	o.HardLiterals = true
	o.GoEscapes = true
	o.ComposedLiterals = true // quotes after backslashes, over-escaped quotes, HTML entities
	o.ExpDoubles = true
	o.HexIDs = true
	o.SameNS = rng.Chance(1, 4)
	o.PkgClash = rng.Chance(1, 2)
	if o.PkgClash {
		o.Files = 3
	}
	return o
}

var c06Configs = [][]string{
	nil,
	{"enum_as_int_32"},
	{"value_type_in_container"},
	{"naming_style=golint"},
	{"naming_style=apache", "ignore_initialisms"},
	{"gen_setter", "nil_safe", "compatible_names"},
}

// subsetDiff compares an expected value with an observation where struct values only assert the
// fields the expectation mentions (struct literals: unmentioned fields are not asserted).
func subsetDiff(exp, obs *idl.Val, path string) string {
	if exp == nil {
		return ""
	}
	if obs == nil {
		// nil and empty containers / binary are the same value
		if (exp.Cat == "list" || exp.Cat == "set") && len(exp.L) == 0 || exp.Cat == "map" && len(exp.M) == 0 || exp.Cat == "binary" && exp.S == "" {
			return ""
		}
		return fmt.Sprintf("%s: want %s, got nil", path, vlib.Trunc(exp.Canon(), 200))
	}
	if exp.Cat != obs.Cat {
		return fmt.Sprintf("%s: want %s, got %s", path, exp.Cat, obs.Cat)
	}
	switch exp.Cat {
	case "struct":
		for id, x := range exp.F {
			y := obs.F[id]
			f := exp.Def.FieldByID(id)
			n := fmt.Sprint(id)
			if f != nil {
				n = f.Name
			}
			if d := subsetDiff(x, y, path+"."+n); d != "" {
				return d
			}
		}
		return ""
	case "list":
		if len(exp.L) != len(obs.L) {
			return fmt.Sprintf("%s: want %d elements, got %d", path, len(exp.L), len(obs.L))
		}
		for i := range exp.L {
			if d := subsetDiff(exp.L[i], obs.L[i], fmt.Sprintf("%s[%d]", path, i)); d != "" {
				return d
			}
		}
		return ""
	case "set":
		if len(exp.L) != len(obs.L) {
			return fmt.Sprintf("%s: want %d elements, got %d", path, len(exp.L), len(obs.L))
		}
		// order-insensitive: the expected elements must match distinct observed ones (an expected struct is a
		// subset pattern, so a greedy assignment could give a specific observed element to an unspecific
		// expected one: search for a complete assignment)
		if i := c06Assign(len(exp.L), func(i, j int) bool { return subsetDiff(exp.L[i], obs.L[j], "") == "" }); i >= 0 {
			return fmt.Sprintf("%s: element #%d %s not found", path, i, vlib.Trunc(exp.L[i].Canon(), 120))
		}
		return ""
	case "map":
		if len(exp.M) != len(obs.M) {
			return fmt.Sprintf("%s: want %d entries, got %d", path, len(exp.M), len(obs.M))
		}
		if i := c06Assign(len(exp.M), func(i, j int) bool {
			return subsetDiff(exp.M[i][0], obs.M[j][0], "") == "" && subsetDiff(exp.M[i][1], obs.M[j][1], "") == ""
		}); i >= 0 {
			e := exp.M[i]
			return fmt.Sprintf("%s: entry %s not found", path, vlib.Trunc(e[0].Canon()+":"+e[1].Canon(), 160))
		}
		return ""
	case "double":
		if exp.D != obs.D && !(exp.D != exp.D && obs.D != obs.D) {
			return fmt.Sprintf("%s: want %v, got %v", path, exp.D, obs.D)
		}
		return ""
	}
	if exp.Canon() != obs.Canon() {
		return fmt.Sprintf("%s: want %s, got %s", path, vlib.Trunc(exp.Canon(), 200), vlib.Trunc(obs.Canon(), 200))
	}
	return ""
}

func C06(r *vlib.Run) {
	r.Rule = "one evaluation = one generated constant/variable, or one field of NewX() / InitDefault() on a zero struct / a getter of an unset optional / IsSet after assigning a non-default value, compared with the reference evaluation of the IDL initializer (C3.4); distinct = (site, type shape, way the value is written) signatures"
	r.Assume("struct literals assert only the fields they mention; literals use only backslash escapes Go accepts; non-empty literals of typedef'd containers and identifiers inside literals of foreign structs are not generated (the Go backend crashes / rejects them: recorded under C04)")
	s, err := harness.NewScratch("c06")
	if err != nil {
		vlib.Fatal("C06", "scratch: %v", err)
	}
	defer s.Close()
	rng := vlib.NewRng(r.Seed, "c06")
	var units []*harness.Unit
	n := 0
	add := func(p *idl.Program, opts []string) {
		n++
		units = append(units, &harness.Unit{Name: fmt.Sprintf("u%04d", n), Prog: p, Backend: "go", Opts: opts, Recurse: true})
	}
	for i, p := range idl.KitchenSinks() {
		add(p, c06Configs[i%len(c06Configs)])
	}
	np := r.N(24, 240)
	for i := 0; i < np; i++ {
		if i%6 == 5 {
			// use_type_alias=false breaks typedefs of scalars (known finding of C01): typedefs of structs only
			o := c06Opts(rng)
			o.TypedefOnlyStructs = true
			o.TypedefChains = false
			add(idl.Generate(rng.Fork("p"), o), []string{"use_type_alias=false"})
			continue
		}
		p := idl.Generate(rng.Fork("p"), c06Opts(rng))
		add(p, c06Configs[i%len(c06Configs)])
		if r.Thorough() {
			add(p, c06Configs[(i+1+rng.Intn(len(c06Configs)-1))%len(c06Configs)])
		}
	}
	ok := buildUnits(r, "C06", s, units)
	for _, u := range ok {
		tm, err := describe(u)
		if err != nil {
			r.Inconclusive(u.Name + ": " + err.Error())
			continue
		}
		c06Unit(r, rng.Fork(u.Name), u, tm)
	}
}

func valueSpelling(v *idl.Value) string {
	switch v.Kind {
	case idl.VInt:
		if v.ToEnumVal != nil {
			return "enum-by-number"
		}
		return "int"
	case idl.VDouble:
		if strings.ContainsAny(v.DblTxt, "eE") {
			return "double-exp"
		}
		return "double"
	case idl.VString:
		return "literal"
	case idl.VIdent:
		switch {
		case v.BoolLit != 0:
			return "true/false"
		case v.ToConst != nil:
			return "const-ref" + map[bool]string{true: "-qualified", false: ""}[strings.Contains(v.Ident, ".")]
		case v.ToEnumVal != nil:
			return fmt.Sprintf("enum-name-dots%d", strings.Count(v.Ident, "."))
		}
	case idl.VList:
		return "list-literal"
	case idl.VMap:
		return "map-literal"
	}
	return "?"
}

func c06Unit(r *vlib.Run, rng *vlib.Rng, u *harness.Unit, tm *typeMap) {
	cfg := optKey(u.Opts)
	// Go names are looked up, never judged: the API kitex uses
	ast, stage, err := harness.Frontend(filepath.Join(u.Dir, "idl", "main.thrift"))
	if err != nil {
		r.Inconclusive(fmt.Sprintf("%s: front end failed in-process at %s: %v", u.Name, stage, err))
		return
	}
	asts, err := harness.MapASTs(u.Prog, ast)
	if err != nil {
		r.Inconclusive(u.Name + ": " + err.Error())
		return
	}
	cu := golang.NewCodeUtils(backend.DummyLogFunc())
	if err := cu.HandleOptions(append(append([]string{}, u.Opts...), "package_prefix=scratch/"+u.Name+"/gen")); err != nil {
		r.Inconclusive(u.Name + ": options: " + err.Error())
		return
	}
	type constCase struct {
		d    *idl.Def
		name string
	}
	var cmds []map[string]interface{}
	var kinds []string
	var ccs []constCase
	var dcs []*idl.Def
	var dvals []*idl.Val
	for _, f := range u.Prog.Files {
		scope, err := golang.BuildScope(cu, asts[f])
		if err != nil {
			r.Inconclusive(u.Name + ": BuildScope: " + err.Error())
			return
		}
		for _, d := range f.DefsOf(idl.KConst) {
			c := scope.Constant(d.Name)
			if c == nil {
				r.Violation("C06/constant-unknown-to-scope", fmt.Sprintf("config [%s]: constant %s of %s has no Go name in the scope", cfg, d.Name, f.Path), c06Replay(u))
				continue
			}
			cmds = append(cmds, map[string]interface{}{"op": "const", "name": pkgDir(f) + "." + c.GoName().String()})
			kinds = append(kinds, "const")
			ccs = append(ccs, constCase{d, c.GoName().String()})
			dcs = append(dcs, nil)
			dvals = append(dvals, nil)
		}
	}
	g := &idl.ValueGen{Rng: rng, MaxDepth: 2, NoNaN: true}
	for _, d := range tm.defs {
		if tm.synth[d] {
			continue
		}
		// a value in which every optional field with a default holds something else
		v := g.GenStruct(d, 0)
		for _, f := range d.Fields {
			if f.Default == nil || d.EffReq(f) != idl.ReqOptional {
				continue
			}
			dv := idl.DefaultOf(f)
			for try := 0; try < 5; try++ {
				nv := g.Gen(f.Type, 1)
				if nv != nil && dv != nil && idl.EqCanon(nv) != idl.EqCanon(dv) {
					v.F[f.ID] = nv
					break
				}
			}
		}
		keys := append([]string{}, tm.all[d]...)
		// constructors of typedefs of this struct (a defined type has no Write method to identify it by)
		for _, f := range u.Prog.Files {
			for _, td := range f.DefsOf(idl.KTypedef) {
				if r := td.Type.Resolve(); r.Ref != d {
					continue
				}
				scope, err := golang.BuildScope(cu, asts[f])
				if err != nil || scope.Typedef(td.Name) == nil {
					continue
				}
				k := pkgDir(f) + "." + scope.Typedef(td.Name).GoName().String()
				dup := false
				for _, x := range keys {
					dup = dup || x == k
				}
				if tm.keys[k] && !dup {
					keys = append(keys, k)
				}
			}
		}
		for _, key := range keys { // the struct's own constructor and those of its typedefs
			cmds = append(cmds, map[string]interface{}{"op": "new", "type": key, "val": harness.ToJV(v)})
			kinds = append(kinds, "new")
			ccs = append(ccs, constCase{})
			dcs = append(dcs, d)
			dvals = append(dvals, v)
		}
	}
	if len(cmds) == 0 {
		return
	}
	res, fatal, _, stderr := u.RunGuest("c06", cmds)
	if fatal != "" && fatal != "timeout" {
		r.Violation("C06/process-death/"+fatal, fmt.Sprintf("config [%s]: guest died: %s", cfg, vlib.Trunc(stderr, 1000)), c06Replay(u))
	}
	for i := range cmds {
		gr := res[i]
		if gr == nil {
			continue
		}
		if p := guestProblem(gr); p != "" {
			r.Count("harness_problems", 1)
			if r.Counter("harness_problems") <= 5 {
				fmt.Printf("NOTE property=C06 unit %s: harness problem: %s\n", u.Name, p)
			}
			continue
		}
		if pn := strOf(gr["panic"]); pn != "" {
			r.Violation("C06/panic/"+kinds[i], fmt.Sprintf("config [%s]: %s", cfg, pn), c06Replay(u))
			continue
		}
		switch kinds[i] {
		case "const":
			d := ccs[i].d
			r.Eval(1)
			where := fmt.Sprintf("config [%s] const %s %s = %s (%s)", cfg, d.Type, d.Name, vlib.Trunc(d.Value.String(), 300), d.File.Path)
			if m, _ := gr["missing"].(bool); m {
				r.Violation("C06/constant-not-in-package", where+": no exported value named "+ccs[i].name+" in the generated package", c06Replay(u))
				continue
			}
			exp, err := idl.Eval(d.Value, d.Type)
			if err != nil {
				r.Count("unevaluable_initializers", 1)
				continue
			}
			jv := gr["val"]
			if sv, isStr := jv.(string); isStr && idl.WireCat(d.Type) == "double" && !strings.HasPrefix(sv, "d") {
				// an untyped Go constant such as `= 100` boxes as int: the same number
				if n, perr := strconv.ParseInt(sv, 10, 64); perr == nil {
					jv = "d" + strconv.FormatUint(math.Float64bits(float64(n)), 16)
				}
			}
			obs, err := harness.FromJV(jv, d.Type)
			if err != nil {
				r.Violation("C06/constant-kind/"+d.Type.Shape(0), where+": Go value has another shape: "+err.Error()+" (Go type "+strOf(gr["gotype"])+")", c06Replay(u))
				continue
			}
			if diff := subsetDiff(exp, obs, d.Name); diff != "" {
				r.Violation("C06/constant-value/"+d.Type.Shape(1)+"/"+valueSpelling(d.Value), where+"\n "+diff, c06Replay(u))
			}
			r.Sigf("const/%s/%s", d.Type.Shape(1), valueSpelling(d.Value))
			c06ValueSigs(r, d.Value)
		case "new":
			d := dcs[i]
			typ := &idl.Type{Name: d.Name, Ref: d}
			nw, err1 := harness.FromJV(gr["new"], typ)
			var id *idl.Val
			var err2 error
			if gr["initdefault"] != nil {
				id, err2 = harness.FromJV(gr["initdefault"], typ)
			}
			if err1 != nil || err2 != nil {
				r.Violation("C06/object-shape", fmt.Sprintf("config [%s] struct %s: %v %v", cfg, d.Name, err1, err2), c06Replay(u))
				continue
			}
			getters, _ := gr["getters"].(map[string]interface{})
			getters0, _ := gr["getters0"].(map[string]interface{})
			isset2, _ := gr["isset2"].(map[string]interface{})
			for _, f := range d.Fields {
				where := fmt.Sprintf("config [%s] struct %s field %s %s (%s)", cfg, d.Name, f.Type, f.Name, d.EffReq(f))
				cat := idl.WireCat(f.Type)
				var exp *idl.Val
				if f.Default != nil {
					where += " = " + vlib.Trunc(f.Default.String(), 200)
					exp, err = idl.Eval(f.Default, f.Type)
					if err != nil {
						continue
					}
				}
				for which, obj := range map[string]*idl.Val{"NewX": nw, "InitDefault": id} {
					if obj == nil {
						continue
					}
					r.Eval(1)
					got := obj.F[f.ID]
					if exp != nil {
						if diff := subsetDiff(exp, got, f.Name); diff != "" {
							r.Violation("C06/default/"+which+"/"+f.Type.Shape(1)+"/"+d.EffReq(f).String()+"/"+valueSpelling(f.Default), where+"\n "+which+": "+diff, c06Replay(u))
						}
						r.Sigf("default/%s/%s/%s/%s", which, f.Type.Shape(1), d.EffReq(f), valueSpelling(f.Default))
						continue
					}
					// no default: zero / nil
					if got != nil {
						zero := idl.ZeroOf(f.Type)
						if zero == nil || idl.EqCanon(zero) != idl.EqCanon(got) {
							r.Violation("C06/no-default-not-zero/"+which+"/"+cat, where+"\n "+which+" holds "+vlib.Trunc(got.Canon(), 200)+" although no default is declared", c06Replay(u))
						}
					}
					r.Sigf("no-default/%s/%s/%s", which, cat, d.EffReq(f))
				}
				// getter of the unset optional field returns the declared default
				if g, ok := getters[fmt.Sprint(f.ID)]; ok && d.EffReq(f) == idl.ReqOptional && exp != nil && !idl.HasStructVal(exp) {
					if gv, err := harness.FromJV(g, f.Type); err == nil {
						r.Eval(1)
						if diff := subsetDiff(exp, gv, f.Name); diff != "" {
							r.Violation("C06/getter-of-unset-optional/"+f.Type.Shape(0), where+"\n getter on a fresh object: "+diff, c06Replay(u))
						}
						r.Sigf("getter-default/%s", f.Type.Shape(0))
					}
				}
				// the same on the zero value new(T): nothing is set, so every getter answers with the default
				// (containers only: an optional scalar with a default is a value field that counts as set whenever
				// it differs from the default, which its zero value usually does)
				if g, ok := getters0[fmt.Sprint(f.ID)]; ok && d.EffReq(f) == idl.ReqOptional && exp != nil && !idl.HasStructVal(exp) && (cat == "list" || cat == "set" || cat == "map") {
					if gv, err := harness.FromJV(g, f.Type); err == nil {
						r.Eval(1)
						if diff := subsetDiff(exp, gv, f.Name); diff != "" {
							r.Violation("C06/getter-of-unset-optional-on-zero-value/"+f.Type.Shape(0), where+"\n getter on new(T): "+diff, c06Replay(u))
						}
						r.Sigf("getter-default-on-zero-value/%s", f.Type.Shape(0))
					}
				}
				// an optional field holding a value different from its default reports itself as set
				if b, ok := isset2[fmt.Sprint(f.ID)]; ok && d.EffReq(f) == idl.ReqOptional && exp != nil {
					if x, present := dvals[i].F[f.ID]; present && idl.EqCanon(x) != idl.EqCanon(exp) && !idl.HasStructVal(exp) {
						r.Eval(1)
						if set, _ := b.(bool); !set {
							r.Violation("C06/isset-false-for-non-default/"+f.Type.Shape(0), where+"\n holds "+vlib.Trunc(x.Canon(), 200)+" but IsSet reports false", c06Replay(u))
						}
						r.Sigf("isset-non-default/%s", f.Type.Shape(0))
					}
				}
			}
		}
		if i%53 == 0 && kinds[i] == "const" {
			r.Sample(map[string]interface{}{"const": ccs[i].d.Name, "type": ccs[i].d.Type.String(), "initializer": vlib.Trunc(ccs[i].d.Value.String(), 200), "config": cfg})
		}
	}
}

func c06ValueSigs(r *vlib.Run, v *idl.Value) {
	var walk func(v *idl.Value, depth int)
	walk = func(v *idl.Value, depth int) {
		if v == nil || depth > 4 {
			return
		}
		if depth > 0 {
			r.Sigf("nested-value/%s", valueSpelling(v))
		}
		for _, e := range v.List {
			walk(e, depth+1)
		}
		for _, e := range v.Map {
			walk(e[0], depth+1)
			walk(e[1], depth+1)
		}
	}
	walk(v, 0)
}

func c06Replay(u *harness.Unit) vlib.Replay {
	rp := vlib.Replay{}
	for k, v := range u.Texts {
		rp["idl/"+k] = v
	}
	rp["options.txt"] = strings.Join(u.Opts, ",") + "\n"
	return rp
}

// c06Assign looks for a one-to-one assignment of n expected items to n observed ones under ok (augmenting
// paths).  It returns -1 when there is one, else the index of an expected item that cannot be placed.
func c06Assign(n int, ok func(i, j int) bool) int {
	owner := make([]int, n) // observed j -> expected i
	for j := range owner {
		owner[j] = -1
	}
	var try func(i int, seen []bool) bool
	try = func(i int, seen []bool) bool {
		for j := 0; j < n; j++ {
			if seen[j] || !ok(i, j) {
				continue
			}
			seen[j] = true
			if owner[j] < 0 || try(owner[j], seen) {
				owner[j] = i
				return true
			}
		}
		return false
	}
	for i := 0; i < n; i++ {
		if !try(i, make([]bool, n)) {
			return i
		}
	}
	return -1
}
