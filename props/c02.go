package props

// C02 — Generated Read/Write implement the Thrift wire format of the IDL.

import (
	"fmt"
	"strings"

	"verif/harness"
	"verif/idl"
	"verif/refcodec"
	"verif/vlib"
)

func c02Opts(rng *vlib.Rng) idl.GenOpts {
	o := idl.DefaultOpts()
	o.Files = rng.Range(1, 3)
	o.Structs = rng.Range(3, 5)
	o.FieldsMax = 9
	o.NameStress = rng.Intn(3)
	o.Annotations = 0
	o.UnionDefault = false
	o.HexIDs = true
	o.SameNS = rng.Chance(1, 4)
	return o
}

// configurations that keep the default serializers: presentation only
var c02Configs = [][]string{
	nil,
	{"naming_style=golint"},
	{"naming_style=apache", "ignore_initialisms"},
	{"gen_setter", "nil_safe"},
	{"value_type_in_container"},
	{"enum_as_int_32"},
	{"reorder_fields", "gen_db_tag", "frugal_tag"},
	{"json_enum_as_text", "snake_style_json_tag", "typed_enum_string"},
	{"gen_deep_equal", "validate_set=false"},
	{"keep_unknown_fields"},
	{"with_reflection", "gen_type_meta"},
	{"compatible_names", "omitempty_for_optional=false", "scan_value_for_enum=false"},
}

type c02Case struct {
	kind    string // write | read | perturb-unknown | perturb-retag | perturb-delete | union-count
	def     *idl.Def
	val     *idl.Val
	sent    []byte
	expect  *idl.Val // expected object state / decoded value
	wantErr bool
	info    string
}

func c02Vectors(rng *vlib.Rng, d *idl.Def, nvals int) ([]map[string]interface{}, []c02Case, func(string)) {
	return nil, nil, nil
}

func fieldSig(d *idl.Def, f *idl.Field, dir string) string {
	return fmt.Sprintf("%s/%s/%s/%s/default=%v", dir, d.Kind, f.Type.Shape(1), d.EffReq(f), f.Default != nil)
}

// c02Prefix is the finding-key prefix of c02Unit (C16 replays the same vectors on trimmed programs).
var c02Prefix = "C02"

func C02(r *vlib.Run) {
	r.Rule = "one evaluation = one comparison of a generated Write with the reference decoder, of a generated Read (object dump, getters, IsSet) with the reference encoding of a model value, or of a Read on a perturbed encoding (unknown field of each wire type inserted at field boundaries of any depth, a field retagged to another wire type, a required field deleted), for every struct/union/exception and synthesized args/result type of generated programs under presentation-only configurations; distinct = distinct (direction, struct kind, field type shape, requiredness, has-default) signatures whose comparison was actually made, plus perturbation kinds"
	r.Assume("values with NaN in map keys / set elements are not generated; absent fields whose default is a struct literal are not asserted (DESIGN C3.3/C3.4)")
	s, err := harness.NewScratch("c02")
	if err != nil {
		vlib.Fatal("C02", "scratch: %v", err)
	}
	defer s.Close()
	rng := vlib.NewRng(r.Seed, "c02")
	var units []*harness.Unit
	n := 0
	add := func(p *idl.Program, opts []string) {
		n++
		units = append(units, &harness.Unit{Name: fmt.Sprintf("u%04d", n), Prog: p, Backend: "go", Opts: opts, Recurse: true})
	}
	ks := idl.KitchenSinks()
	for i, p := range ks[:3] {
		add(p, nil)
		add(p, c02Configs[1+i%(len(c02Configs)-1)])
	}
	np := r.N(16, 200)
	for i := 0; i < np; i++ {
		p := idl.Generate(rng.Fork("p"), c02Opts(rng))
		add(p, nil)
		add(p, c02Configs[1+rng.Intn(len(c02Configs)-1)])
	}
	ok := buildUnits(r, "C02", s, units)
	// group units by program to compare encodings across configurations
	encodings := map[*idl.Program]map[string]map[string]string{} // prog -> vector id -> config -> bytes
	for _, u := range ok {
		tm, err := describe(u)
		if err != nil {
			r.Inconclusive(u.Name + ": " + err.Error())
			continue
		}
		for _, nt := range tm.notes {
			r.Count("types_not_matched", 1)
			if r.Counter("types_not_matched") <= 5 {
				fmt.Printf("NOTE property=C02 unit %s: %s\n", u.Name, nt)
			}
		}
		c02Unit(r, rng.Fork(u.Name), u, tm, encodings)
	}
	// presentation-only options must not change a wire byte
	for p, vecs := range encodings {
		_ = p
		for id, by := range vecs {
			var first, firstCfg string
			for cfg, b := range by {
				if first == "" {
					first, firstCfg = b, cfg
					continue
				}
				r.Eval(1)
				if len(b) != len(first) {
					r.Violation("C02/config-changes-encoding-length", fmt.Sprintf("vector %s: %d bytes under [%s], %d bytes under [%s]", id, len(first)/2, firstCfg, len(b)/2, cfg), nil)
				}
			}
		}
	}
}

func c02Unit(r *vlib.Run, rng *vlib.Rng, u *harness.Unit, tm *typeMap, encodings map[*idl.Program]map[string]map[string]string) {
	cfg := optKey(u.Opts)
	var cmds []map[string]interface{}
	var cases []c02Case
	push := func(cmd map[string]interface{}, c c02Case) {
		cmds = append(cmds, cmd)
		cases = append(cases, c)
	}
	nvals := 6
	if r.Thorough() {
		nvals = 14
	}
	valRng := vlib.NewRng(r.Seed, "c02vals", fmt.Sprint(len(u.Prog.Files))) // same values for every configuration of a program
	for _, d := range tm.defs {
		key := tm.key[d]
		for k := 0; k < nvals; k++ {
			g := &idl.ValueGen{Rng: valRng.Fork(d.Name), MaxDepth: 3, Mode: []int{0, 1, 2, 0, 0, 3}[k%6]}
			v := g.GenStruct(d, 0)
			norm := idl.NormalizeWire(v)
			// --- write
			push(map[string]interface{}{"op": "write", "type": key, "val": harness.ToJV(v)}, c02Case{kind: "write", def: d, val: v, expect: norm, info: fmt.Sprintf("%s#%d", d.Name, k)})
			// --- read of the reference encoding
			enc, marks := refEncode(d, norm)
			push(map[string]interface{}{"op": "read", "type": key, "bytes": hexOf(enc), "rewrite": true}, c02Case{kind: "read", def: d, val: v, sent: enc, expect: norm})
			if k >= 3 {
				continue
			}
			// --- perturbations
			// unknown field of every wire type at sampled field boundaries of any depth
			bounds := []refcodec.FieldMark{}
			for _, m := range marks {
				bounds = append(bounds, m)
			}
			for bi := 0; bi < 3 && len(bounds) >= 0; bi++ {
				off, depthDef := len(enc)-1, d // before the final STOP
				if len(bounds) > 0 && bi > 0 {
					m := bounds[rng.Intn(len(bounds))]
					off, depthDef = m.Start, m.Def
				}
				tt := refcodec.AllTypes[rng.Intn(len(refcodec.AllTypes))]
				id := refcodec.UnusedID(depthDef, rng.Intn(13))
				b := refcodec.Insert(enc, off, refcodec.FieldBytes(tt, id, bi))
				push(map[string]interface{}{"op": "read", "type": key, "bytes": hexOf(b)}, c02Case{kind: "perturb-unknown", def: d, val: v, sent: b, expect: norm, info: fmt.Sprintf("unknown field id=%d wire-type=%d inserted at offset %d (struct %s)", id, tt, off, depthDef.Name)})
			}
			// retag a top-level field to another wire type
			for _, m := range marks {
				if m.Depth != 0 || !rng.Chance(1, 2) {
					continue
				}
				f := d.FieldByID(m.ID)
				orig := refcodec.TypeOf(f.Type)
				tt := refcodec.AllTypes[rng.Intn(len(refcodec.AllTypes))]
				if tt == orig {
					continue
				}
				b := refcodec.Insert(refcodec.Cut(enc, m.Start, m.End), m.Start, refcodec.FieldBytes(tt, int16(m.ID), 1))
				exp := norm.Clone()
				delete(exp.F, m.ID)
				c := c02Case{kind: "perturb-retag", def: d, val: v, sent: b, expect: exp, info: fmt.Sprintf("field %s(id %d) retagged from wire type %d to %d", f.Name, m.ID, orig, tt)}
				if d.EffReq(f) == idl.ReqRequired {
					c.wantErr = true
				}
				push(map[string]interface{}{"op": "read", "type": key, "bytes": hexOf(b)}, c)
			}
			// delete each required field
			for _, m := range marks {
				if m.Depth != 0 {
					continue
				}
				f := d.FieldByID(m.ID)
				if d.EffReq(f) != idl.ReqRequired {
					continue
				}
				b := refcodec.Cut(enc, m.Start, m.End)
				push(map[string]interface{}{"op": "read", "type": key, "bytes": hexOf(b)}, c02Case{kind: "perturb-delete", def: d, val: v, sent: b, wantErr: true, info: fmt.Sprintf("required field %s(id %d) deleted", f.Name, m.ID)})
			}
		}
		// unions: zero and two members set must be refused by Write
		if d.Kind == idl.KUnion && len(d.Fields) >= 1 {
			g := &idl.ValueGen{Rng: valRng.Fork("u" + d.Name), MaxDepth: 2}
			empty := &idl.Val{Cat: "struct", Def: d, F: map[int32]*idl.Val{}}
			push(map[string]interface{}{"op": "write", "type": key, "val": harness.ToJV(empty)}, c02Case{kind: "union-count", def: d, val: empty, wantErr: true, info: "no member set"})
			if len(d.Fields) >= 2 {
				two := &idl.Val{Cat: "struct", Def: d, F: map[int32]*idl.Val{}}
				for _, f := range d.Fields[:2] {
					if x := g.Gen(f.Type, 1); x != nil {
						two.F[f.ID] = x
					}
				}
				if len(two.F) == 2 {
					push(map[string]interface{}{"op": "write", "type": key, "val": harness.ToJV(two)}, c02Case{kind: "union-count", def: d, val: two, wantErr: true, info: "two members set"})
				}
			}
		}
	}
	if len(cmds) == 0 {
		return
	}
	res, fatal, last, stderr := u.RunGuest("c02", cmds)
	if fatal != "" {
		c := c02Case{}
		if last >= 0 && last < len(cases) {
			c = cases[last]
		}
		key := c02Prefix + "/guest-died/" + fatal
		if fatal == "timeout" {
			r.Inconclusive(fmt.Sprintf("unit %s guest watchdog at command %d", u.Name, last))
		} else {
			r.Violation(key, fmt.Sprintf("config [%s]: generated code killed the process (%s) during %s on %s: %s\n%s", cfg, fatal, c.kind, c.info, vlib.Trunc(stderr, 1500), c02Context(u, c)), c02Replay(u, c))
		}
	}
	if encodings[u.Prog] == nil {
		encodings[u.Prog] = map[string]map[string]string{}
	}
	for i, c := range cases {
		gr := res[i]
		if gr == nil {
			continue
		}
		if p := guestProblem(gr); p != "" {
			r.Count("harness_problems", 1)
			if r.Counter("harness_problems") <= 5 {
				fmt.Printf("NOTE property=C02 unit %s case %s: harness problem: %s\n", u.Name, c.kind, p)
			}
			continue
		}
		bad := func(k, f string, a ...interface{}) {
			r.Violation(c02Prefix+"/"+c.kind+"/"+k, fmt.Sprintf("config [%s] type %s: ", cfg, c.def.Name)+fmt.Sprintf(f, a...)+"\n"+c02Context(u, c), c02Replay(u, c))
		}
		r.Eval(1)
		if pn := strOf(gr["panic"]); pn != "" {
			bad("panic", "generated code panicked: %s\n%s", pn, vlib.Trunc(strOf(gr["stack"]), 800))
			continue
		}
		errS := strOf(gr["err"])
		switch c.kind {
		case "write":
			if errS != "" {
				bad("error", "Write failed on a valid value: %s", errS)
				continue
			}
			b := unhex(gr["bytes"])
			if err := refcodec.WellFormed(b); err != nil {
				bad("malformed", "Write produced bytes that are not a well-formed struct: %v", err)
				continue
			}
			dec, err := refcodec.DecodeStruct(c.def, b)
			if err != nil {
				bad("undecodable/"+decodeKind(err), "reference decoder rejects the bytes: %v", err)
				continue
			}
			if !idl.EqualWire(dec, c.expect) {
				bad("value/"+diffSite(c.def, c.expect, dec), "decoded value differs\n want %s\n  got %s", c.expect.Canon(), dec.Canon())
				continue
			}
			ref, _ := refEncode(c.def, c.expect)
			if len(ref) != len(b) {
				bad("length", "encoding has %d bytes, reference %d", len(b), len(ref))
			}
			id := c.info
			if encodings[u.Prog][id] == nil {
				encodings[u.Prog][id] = map[string]string{}
			}
			encodings[u.Prog][id][cfg] = strOf(gr["bytes"])
			for _, f := range c.def.Fields {
				r.Sig(fieldSig(c.def, f, "write"))
			}
		case "read", "perturb-unknown", "perturb-retag":
			if c.wantErr {
				if errS == "" {
					bad("missing-required-accepted", "%s: Read returned no error", c.info)
				}
				r.Sig("perturb/" + c.kind + "/required")
				continue
			}
			if errS != "" {
				bad("error", "%s: Read failed: %s", c.info, errS)
				continue
			}
			if left, _ := gr["left"].(float64); left != 0 {
				bad("leftover-bytes", "%s: %v bytes left unread", c.info, left)
			}
			obs, err := harness.FromJV(gr["val"], &idl.Type{Name: c.def.Name, Ref: c.def})
			if err != nil {
				bad("dump", "cannot interpret the object dump: %v", err)
				continue
			}
			exp := harness.ObjState(c.expect)
			obsS := harness.ObjState(obs)
			harness.MaskUnasserted(exp, obsS)
			if exp.Canon() != obsS.Canon() {
				bad("object/"+diffSite(c.def, exp, obsS), "%s\nobject after Read differs\n want %s\n  got %s", c.info, exp.Canon(), obsS.Canon())
				continue
			}
			after, assertable := harness.AfterRead(c.expect)
			if assertable {
				c2 := c
				c2.expect = after
				c02Accessors(r, c2, gr, bad)
			}
			if c.kind == "read" {
				if rw := strOf(gr["rewrite"]); rw != "" && assertable {
					dec, err := refcodec.DecodeStruct(c.def, unhex(rw))
					if we := strOf(gr["rewrite_err"]); we != "" {
						bad("rewrite/error", "Write of the object just read fails: %s", we)
					} else if err != nil {
						bad("rewrite/undecodable", "Write(Read(bytes)) is not decodable: %v", err)
					} else if want := idl.NormalizeWire(after); !idl.EqualWire(dec, want) {
						bad("rewrite/"+diffSite(c.def, want, dec), "Write(Read(bytes)) decodes to another value\n want %s\n  got %s", want.Canon(), dec.Canon())
					}
				}
				for _, f := range c.def.Fields {
					r.Sig(fieldSig(c.def, f, "read"))
				}
			} else {
				r.Sig("perturb/" + c.kind + "/" + perturbSig(c.info))
			}
		case "perturb-delete":
			if errS == "" {
				bad("missing-required-accepted", "%s: Read returned no error", c.info)
			}
			r.Sig("perturb/delete-required")
		case "union-count":
			if errS == "" {
				bad("accepted", "Write accepted a union with %s", c.info)
			}
			r.Sig("union/" + c.info)
		}
		if i%997 == 0 {
			r.Sample(map[string]interface{}{"kind": c.kind, "type": c.def.Name, "config": cfg, "value": vlib.Trunc(c.val.Canon(), 300), "bytes": vlib.Trunc(hexOf(c.sent), 200)})
		}
	}
}

func perturbSig(info string) string {
	if i := strings.Index(info, "wire-type="); i >= 0 {
		return strings.Fields(info[i:])[0]
	}
	if i := strings.Index(info, "to "); i >= 0 {
		return "to-" + strings.TrimSpace(info[i+3:])
	}
	return "x"
}

func decodeKind(err error) string {
	s := err.Error()
	for _, k := range []string{"truncated", "not in the schema", "wire type", "written twice", "trailing", "element type", "map type", "negative", "bool byte"} {
		if strings.Contains(s, k) {
			return strings.ReplaceAll(k, " ", "-")
		}
	}
	return "other"
}

// diffSite names the first field (by shape) at which two struct values differ.
func diffSite(d *idl.Def, a, b *idl.Val) string {
	for _, f := range d.Fields {
		x, xo := a.F[f.ID]
		y, yo := b.F[f.ID]
		if xo != yo {
			if xo {
				return fmt.Sprintf("%s/%s/present->absent", f.Type.Shape(1), d.EffReq(f))
			}
			return fmt.Sprintf("%s/%s/absent->present", f.Type.Shape(1), d.EffReq(f))
		}
		if xo && x.Canon() != y.Canon() {
			return fmt.Sprintf("%s/%s/value", f.Type.Shape(1), d.EffReq(f))
		}
	}
	return "other"
}

// c02Accessors compares getters and IsSet results with the model.
func c02Accessors(r *vlib.Run, c c02Case, gr harness.GuestResult, bad func(k, f string, a ...interface{})) {
	getters, _ := gr["getters"].(map[string]interface{})
	isset, _ := gr["isset"].(map[string]interface{})
	for _, f := range c.def.Fields {
		id := fmt.Sprint(f.ID)
		cat := idl.WireCat(f.Type)
		x, present := c.expect.F[f.ID]
		if g, ok := getters[id]; ok && cat != "struct" && !harness.HasStruct(f.Type) {
			if m, isMap := g.(map[string]interface{}); isMap && m["panic"] != nil {
				bad("getter-panic", "getter of %s panicked: %v", f.Name, m["panic"])
				continue
			}
			got, err := harness.FromJV(g, f.Type)
			if err != nil {
				continue
			}
			want := x
			if !present {
				want = idl.DefaultOf(f)
				if want == nil {
					want = idl.ZeroOf(f.Type)
				}
			}
			gc, wc := "<nil>", "<nil>"
			if got != nil {
				gc = got.Canon()
			}
			if want != nil {
				wc = want.Canon()
			}
			// nil and empty containers / binary are the same value
			if gc == "<nil>" && (wc == "[]" || wc == "{}" || wc == `""`) {
				gc = wc
			}
			if wc == "<nil>" && (gc == "[]" || gc == "{}" || gc == `""`) {
				wc = gc
			}
			if gc != wc {
				bad("getter/"+f.Type.Shape(0)+"/"+c.def.EffReq(f).String(), "getter of %s returns %s, model says %s (field present on the wire: %v)", f.Name, gc, wc, present)
			}
			r.Eval(1)
		}
		if v, ok := isset[id]; ok && c.def.EffReq(f) == idl.ReqOptional {
			want := idl.WirePresent(c.def, f, c.expect)
			if b, _ := v.(bool); b != want {
				bad("isset/"+f.Type.Shape(0), "IsSet of optional field %s = %v, model says %v", f.Name, b, want)
			}
			r.Eval(1)
		}
	}
}

func c02Context(u *harness.Unit, c c02Case) string {
	var sb strings.Builder
	if c.val != nil {
		fmt.Fprintf(&sb, "value: %s\n", vlib.Trunc(c.val.Canon(), 1200))
	}
	if c.sent != nil {
		fmt.Fprintf(&sb, "bytes sent: %s\n", vlib.Trunc(hexOf(c.sent), 800))
	}
	if c.def != nil {
		fmt.Fprintf(&sb, "struct %s of %s\n", c.def.Name, c.def.File.Path)
	}
	return sb.String()
}

func c02Replay(u *harness.Unit, c c02Case) vlib.Replay {
	rp := vlib.Replay{}
	for k, v := range u.Texts {
		rp["idl/"+k] = v
	}
	rp["options.txt"] = u.Backend + ":" + strings.Join(u.Opts, ",") + "\n"
	if c.val != nil {
		rp["value.txt"] = c.val.Canon() + "\n"
	}
	if c.sent != nil {
		rp["bytes.hex"] = hexOf(c.sent) + "\n"
	}
	return rp
}
