package props

// C11 — Plugins see the compiler's AST and options, and their answers are honoured.

import (
	"bytes"
	"encoding/json"
	"fmt"
	"os"
	"path/filepath"
	"strings"
	"sync"
	"time"

	"github.com/cloudwego/thriftgo/parser"
	"github.com/cloudwego/thriftgo/plugin"
	"github.com/cloudwego/thriftgo/version"

	"verif/guest"
	"verif/harness"
	"verif/idl"
	"verif/vlib"
)

func c11Opts(rng *vlib.Rng) idl.GenOpts {
	o := idl.DefaultOpts()
	o.Files = rng.Range(1, 5)
	o.Structs = rng.Range(1, 4)
	o.Annotations = 2
	o.TypeAnn = true
	o.ExtraNS = true
	o.CppIncludes = true
	o.MoreServices = rng.Bool()
	o.TypedefChains = rng.Bool()
	o.HardLiterals = true
	o.GoEscapes = false
	o.ExpDoubles = true
	o.HexIDs = true
	o.ArgDefaults = true
	o.UnionDefault = true
	o.Preserve = true
	return o
}

func c11JSON(v interface{}) []byte {
	b, _ := json.Marshal(v)
	return b
}

// c11FirstDiff locates the first difference of two canonical JSON documents.
func c11FirstDiff(a, b []byte) string {
	var x, y interface{}
	json.Unmarshal(a, &x)
	json.Unmarshal(b, &y)
	var diffs []c15Diff
	c15Compare(x, y, "", "", &diffs)
	if len(diffs) == 0 {
		return ""
	}
	return diffs[0].site + ": " + diffs[0].detail
}

func c11Site(d string) string {
	s := strings.SplitN(d, ":", 2)[0]
	s = strings.TrimPrefix(s, ".")
	for strings.Contains(s, "Includes[].Reference.") {
		s = strings.Replace(s, "Includes[].Reference.", "", 1)
	}
	return c15SiteKey("." + s)
}

// c11InProcess: Marshal/Unmarshal of requests, with and without include compression.
func c11InProcess(r *vlib.Run, rng *vlib.Rng, dir string, i int) {
	p := idl.Generate(rng.Fork("p"), c11Opts(rng))
	sub := filepath.Join(dir, fmt.Sprintf("p%d", i))
	texts, err := harness.WriteProgram(sub, p, idl.PlainLayout())
	if err != nil {
		vlib.Fatal("C11", "write: %v", err)
	}
	defer os.RemoveAll(sub)
	root, stage, err := harness.Frontend(filepath.Join(sub, "main.thrift"))
	if err != nil {
		r.Inconclusive(fmt.Sprintf("front end rejects a generated program (%s): %v", stage, err))
		return
	}
	bad := func(key, detail string) {
		rp := vlib.Replay{}
		for k, v := range texts {
			rp[k] = v
		}
		r.Violation("C11/in-process/"+key, detail, rp)
	}
	req := &plugin.Request{
		Version:             "0.4.5-verif",
		GeneratorParameters: []string{"a=1", "b=", "c=x=y", "="},
		PluginParameters:    []string{"k=v", "flag=", "k=again"},
		Language:            "go",
		OutputPath:          "some/out path",
		Recursive:           i%2 == 0,
		AST:                 root,
	}
	if i%5 == 0 {
		req.GeneratorParameters, req.PluginParameters = nil, nil
	}
	shape := "tree"
	if len(p.ReachableFiles()) > 1 {
		shape = "includes"
	}
	seen := map[*idl.File]int{}
	for _, f := range p.ReachableFiles() {
		for _, inc := range f.Includes {
			seen[inc.File]++
		}
	}
	for _, n := range seen {
		if n > 1 {
			shape = "shared-includes"
		}
	}
	wantTree := c11JSON(guest.Canon(req))
	wantShared := c11JSON(guest.CanonShared(req))
	// plain
	var got *plugin.Request
	var merr error
	if pn := safely(func() {
		var bs []byte
		bs, merr = plugin.MarshalRequest(req)
		if merr == nil {
			got, merr = plugin.UnmarshalRequest(bs)
		}
	}); pn != "" {
		bad("plain/panic", pn)
		return
	}
	r.Eval(1)
	if merr != nil {
		bad("plain/error", merr.Error())
		return
	}
	if d := c11FirstDiff(wantTree, c11JSON(guest.Canon(got))); d != "" {
		bad("plain/request-differs/"+c11Site(d), "UnmarshalRequest(MarshalRequest(req)) differs from req at "+d)
	} else {
		r.Sig("in-process:plain:identical:" + shape)
		c03ModelSigs(r, p.Main())
	}
	// with include compression and trailer (what Execute does for plugins built with thriftgo >= v0.4.2)
	var bs []byte
	if pn := safely(func() {
		m := map[string]*parser.Thrift{}
		plugin.VerifCompressThriftInclude(req.AST, m)
		bs, merr = plugin.MarshalRequest(req)
		plugin.VerifDecompressThriftInclude(req.AST, m) // Execute reverts its own request
		bs = plugin.VerifAppendDataTrailer(bs)
	}); pn != "" {
		bad("compressed/panic-while-sending", pn)
		return
	}
	r.Eval(1)
	if d := c11FirstDiff(wantShared, c11JSON(guest.CanonShared(req))); d != "" {
		bad("compressed/compilers-own-request-damaged/"+c11Site(d), "after compress + marshal + revert the compiler's own request differs from what it was at "+d)
	} else {
		r.Sig("in-process:compressed:own-request-intact:" + shape)
	}
	plainLen := 0
	if b, e := plugin.MarshalRequest(req); e == nil {
		plainLen = len(b)
	}
	if shape == "shared-includes" && len(bs) >= plainLen+22 {
		bad("compressed/nothing-compressed", fmt.Sprintf("a request with shared includes is %d bytes compressed and %d bytes plain", len(bs), plainLen))
	}
	got = nil
	if pn := safely(func() { got, merr = plugin.UnmarshalRequest(bs) }); pn != "" {
		bad("compressed/panic-while-receiving", pn)
		return
	}
	r.Eval(1)
	if merr != nil {
		bad("compressed/error", merr.Error())
		return
	}
	if d := c11FirstDiff(wantTree, c11JSON(guest.Canon(got))); d != "" {
		bad("compressed/request-differs/"+c11Site(d), "the request decoded from a compressed encoding differs from the compiler's at "+d)
	} else if d := c11FirstDiff(wantShared, c11JSON(guest.CanonShared(got))); d != "" {
		bad("compressed/sharing-differs/"+c11Site(d), "the request decoded from a compressed encoding shares its includes differently at "+d)
	} else {
		r.Sig("in-process:compressed:identical:" + shape)
	}
}

type c11Case struct {
	id      int
	name    string // response shape / fault
	backend string
	gen     string   // -g value
	popts   []string // one -p option string per plugin ("" = none)
	names   []string // plugin binaries are links named rec_<name> (slots by name: plugins without parameters)
	script  []string // REC_SCRIPT per plugin slot
	extra   []string // extra thriftgo arguments
	prog    int
	// expectations
	fail      bool              // thriftgo must exit non-zero and write nothing
	files     map[string]string // files that must exist with this content (relative to cwd)
	warn      []string          // texts that must show up on stderr/stdout
	killed    bool              // the plugin must be gone when thriftgo returns and must not have woken up
	recursive bool
	// observations
	dir  string
	res  vlib.CLIResult
	tree map[string]string
}

func C11(r *vlib.Run) {
	r.Rule = "one evaluation = one Marshal/Unmarshal round trip of a plugin request built from a really parsed program (plain, and with include compression + trailer through the verif hook) compared node for node and for sharing; or one run of the thriftgo binary with the recording plugin, whose decoded request (version, language, output path, recursive flag, generator and plugin parameters in order, AST) is compared with the compiler's own front-end result and whose scripted answer (files, insertion-point patches, warnings, error, exit status, garbage, truncation, silence, delay beyond --plugin-time-limit) is compared with what thriftgo wrote, printed and returned; distinct = (path, shape, outcome) signatures"
	r.Assume("a locally built plugin cannot report a released thriftgo version, so include compression is exercised in-process through plugin/export_verif.go; the external path always runs uncompressed")
	dir := vlib.ScratchBase("vf-c11-")
	defer os.RemoveAll(dir)
	rng := vlib.NewRng(r.Seed, "c11")
	n := r.N(300, 3000)
	for i := 0; i < n; i++ {
		c11InProcess(r, rng, dir, i)
	}

	// ---- the binary with the recording plugin ----
	np := r.N(6, 40)
	var progs []*idl.Program
	var texts []map[string]string
	for i := 0; i < np; i++ {
		o := c11Opts(rng)
		o.HardLiterals, o.GoEscapes, o.UnionDefault, o.ArgDefaults, o.TypeAnn = false, true, false, false, false
		p := idl.Generate(rng.Fork("x"), o)
		progs = append(progs, p)
		texts = append(texts, idl.RenderProgram(p, idl.PlainLayout()))
	}
	rec := vlib.Bin("recplugin")
	ip := plugin.InsertionPoint("spot")
	var cases []*c11Case
	id := 0
	add := func(c *c11Case) {
		id++
		c.id = id
		c.prog = id % np
		if c.gen == "" {
			c.gen = "go"
		}
		cases = append(cases, c)
	}
	reps := r.N(1, 6)
	for k := 0; k < reps; k++ {
		for _, be := range []string{"go", "fastgo"} {
			add(&c11Case{name: "ok/no-files", gen: be, popts: []string{""}, script: []string{`{"mode":"ok"}`}})
			add(&c11Case{name: "ok/options-in-order", gen: be + ":naming_style=golint,gen_setter,package_prefix=a.b/c", popts: []string{"zeta=1,alpha,mid=x=y,alpha=2,empty="}, script: []string{`{"mode":"ok"}`}, recursive: true})
			add(&c11Case{name: "ok/one-file", gen: be, popts: []string{"a=b"}, script: []string{`{"mode":"ok","files":[{"name":"out/from_plugin.txt","content":"hello\nworld"}]}`}, files: map[string]string{"out/from_plugin.txt": "hello\nworld"}})
			add(&c11Case{name: "ok/files+patch", gen: be, popts: []string{""}, script: []string{`{"mode":"ok","files":[{"name":"out/p.txt","content":"A\n` + ip + `\nB"},{"insertion_point":"spot","content":"PATCH"},{"name":"out/deep/dir/q.txt","content":"q"}]}`}, files: map[string]string{"out/p.txt": "A\nPATCH\nB", "out/deep/dir/q.txt": "q"}})
			add(&c11Case{name: "ok/patch-by-name", gen: be, popts: []string{""}, script: []string{`{"mode":"ok","files":[{"name":"out/p.txt","content":"[` + ip + `]"},{"name":"out/other.txt","content":"o"},{"name":"out/p.txt","insertion_point":"spot","content":"late"}]}`}, files: map[string]string{"out/p.txt": "[late]", "out/other.txt": "o"}})
			add(&c11Case{name: "ok/nameless-patch-after-named-patch", gen: be, popts: []string{""}, script: []string{`{"mode":"ok","files":[{"name":"out/a.txt","content":"[` + ip + `][` + plugin.InsertionPoint("two") + `]"},{"name":"out/b.txt","content":"<` + plugin.InsertionPoint("two") + `>"},{"name":"out/a.txt","insertion_point":"spot","content":"N"},{"insertion_point":"two","content":"U"}]}`}, files: map[string]string{"out/a.txt": "[N][U]", "out/b.txt": "<>"}})
			add(&c11Case{name: "ok/patch-for-a-name-not-fed-before", gen: be, popts: []string{""}, script: []string{`{"mode":"ok","files":[{"name":"out/first.txt","content":"x"},{"name":"out/extra.txt","insertion_point":"spot","content":"EXTRA"}]}`}, files: map[string]string{"out/first.txt": "x", "out/extra.txt": "EXTRA"}})
			add(&c11Case{name: "ok/warnings", gen: be, popts: []string{""}, script: []string{`{"mode":"ok","warnings":["warning-one-zz","warning-two-zz"],"stderr":"stderr-text-zz"}`}, warn: []string{"warning-one-zz", "warning-two-zz", "stderr-text-zz"}})
			add(&c11Case{name: "ok/two-plugins", gen: be, popts: []string{"slot=first,x=1", "slot=second,y=2"}, script: []string{`{"mode":"ok","files":[{"name":"out/one.txt","content":"1"}]}`, `{"mode":"ok","files":[{"name":"out/two.txt","content":"2"}]}`}, files: map[string]string{"out/one.txt": "1", "out/two.txt": "2"}})
			add(&c11Case{name: "ok/three-plugins-middle-one-without-parameters", gen: be, popts: []string{"alpha=1,beta,gamma=x=y", "", "last=1"}, names: []string{"p1", "p2", "p3"}, script: []string{`{"mode":"ok"}`, `{"mode":"ok"}`, `{"mode":"ok"}`}})
			add(&c11Case{name: "fault/error-response", gen: be, popts: []string{""}, script: []string{`{"mode":"error","error":"plugin-says-no-zz","warnings":["warning-with-error-zz"],"files":[{"name":"out/must_not_exist.txt","content":"x"}]}`}, fail: true, warn: []string{"plugin-says-no-zz", "warning-with-error-zz"}})
			add(&c11Case{name: "fault/exit-status", gen: be, popts: []string{""}, script: []string{`{"mode":"exit","exit":3,"stderr":"stderr-before-exit-zz","files":[{"name":"out/must_not_exist.txt","content":"x"}]}`}, fail: true, warn: []string{"stderr-before-exit-zz"}})
			add(&c11Case{name: "fault/garbage", gen: be, popts: []string{""}, script: []string{`{"mode":"garbage"}`}, fail: true})
			add(&c11Case{name: "fault/truncated", gen: be, popts: []string{""}, script: []string{`{"mode":"truncate","files":[{"name":"out/must_not_exist.txt","content":"some longer content to cut in the middle"}]}`}, fail: true})
			add(&c11Case{name: "fault/second-plugin-fails", gen: be, popts: []string{"slot=first", "slot=second"}, script: []string{`{"mode":"ok","files":[{"name":"out/one.txt","content":"1"}]}`, `{"mode":"error","error":"second-says-no-zz"}`}, fail: true, warn: []string{"second-says-no-zz"}})
			add(&c11Case{name: "fault/beyond-time-limit", gen: be, popts: []string{""}, script: []string{`{"mode":"ok","sleep_ms":25000,"files":[{"name":"out/must_not_exist.txt","content":"x"}]}`}, extra: []string{"--plugin-time-limit", "2s"}, fail: true, killed: true})
			add(&c11Case{name: "ok/within-time-limit", gen: be, popts: []string{""}, script: []string{`{"mode":"ok","sleep_ms":50,"files":[{"name":"out/slow.txt","content":"s"}]}`}, extra: []string{"--plugin-time-limit", "60s"}, files: map[string]string{"out/slow.txt": "s"}})
		}
	}
	run := func(c *c11Case) {
		c.dir = filepath.Join(dir, fmt.Sprintf("c%04d", c.id))
		vlib.WriteFiles(filepath.Join(c.dir, "idl"), texts[c.prog])
		args := []string{"-g", c.gen, "-o", "out"}
		if c.recursive {
			args = append(args, "-r")
		}
		env := []string{"REC_DIR=" + filepath.Join(c.dir, "rec")}
		for i, po := range c.popts {
			bin := rec
			if len(c.names) > 0 {
				bin = filepath.Join(c.dir, "rec_"+c.names[i])
				os.Symlink(rec, bin)
			}
			a := "rec" + fmt.Sprint(i) + "=" + bin
			if po != "" {
				a += ":" + po
			}
			args = append(args, "-p", a)
			switch {
			case len(c.names) > 0:
				env = append(env, "REC_SCRIPT_"+c.names[i]+"="+c.script[i])
			case len(c.popts) == 1:
				env = append(env, "REC_SCRIPT="+c.script[i])
			default:
				slot := strings.TrimPrefix(strings.SplitN(po, ",", 2)[0], "slot=")
				env = append(env, "REC_SCRIPT_"+slot+"="+c.script[i])
			}
		}
		args = append(args, c.extra...)
		args = append(args, "idl/main.thrift")
		c.res = vlib.RunCLI(c.dir, env, 90*time.Second, vlib.Bin("thriftgo"), args...)
		c.tree = vlib.Tree(filepath.Join(c.dir, "out"))
	}
	var wg sync.WaitGroup
	ch := make(chan *c11Case)
	for w := 0; w < 12; w++ {
		wg.Add(1)
		go func() {
			defer wg.Done()
			for c := range ch {
				run(c)
			}
		}()
	}
	for _, c := range cases {
		ch <- c
	}
	close(ch)
	wg.Wait()
	for _, c := range cases {
		c11Judge(r, c, progs[c.prog], texts[c.prog])
		os.RemoveAll(c.dir)
	}
	r.Require("external:request-matches-compiler:go", "external:request-matches-compiler:fastgo", "external:fault/beyond-time-limit:plugin-killed", "external:ok/files+patch:honoured", "in-process:compressed:identical:shared-includes")
}

func c11Judge(r *vlib.Run, c *c11Case, p *idl.Program, texts map[string]string) {
	be := strings.SplitN(c.gen, ":", 2)[0]
	out := strings.TrimSpace(c.res.Stdout + "\n" + c.res.Stderr)
	ctx := fmt.Sprintf("[%s, -g %s, plugins %q] exit=%d\n%s", c.name, c.gen, c.popts, c.res.Exit, vlib.Trunc(out, 1200))
	rp := func() vlib.Replay {
		x := vlib.Replay{"CASE.txt": ctx + "\nscripts: " + strings.Join(c.script, " | ")}
		for k, v := range texts {
			x["idl/"+k] = v
		}
		return x
	}
	bad := func(key, detail string) { r.Violation("C11/external/"+key, detail+"\n"+ctx, rp()) }
	r.Eval(1)
	if c.res.TimedOut {
		if c.killed {
			bad("time-limit/thriftgo-waits-for-the-plugin", "thriftgo did not return although the plugin exceeded --plugin-time-limit")
		} else {
			r.Inconclusive("watchdog: " + c.name)
		}
		return
	}
	if c.res.Crash != "" {
		bad("crash/"+c.name, "thriftgo dies with a Go trace")
		return
	}
	// ---- what the plugin saw ----
	slots := []string{""}
	if len(c.names) > 0 {
		slots = c.names
	} else if len(c.popts) > 1 {
		slots = nil
		for _, po := range c.popts {
			slots = append(slots, strings.TrimPrefix(strings.SplitN(po, ",", 2)[0], "slot="))
		}
	}
	var want map[string]interface{}
	for si, slot := range slots {
		rd := filepath.Join(c.dir, "rec", slot)
		if _, err := os.Stat(filepath.Join(rd, "started")); err != nil {
			if si > 0 && c.fail {
				continue
			}
			if c.killed && c.res.Exit != 0 {
				// on a loaded machine the time limit can expire before the plugin has read its input
				r.Inconclusive("the plugin was stopped by the time limit before it recorded anything")
				return
			}
			bad("plugin-not-run/"+c.name, "the plugin was never started (slot '"+slot+"')")
			continue
		}
		for _, f := range []string{"decode-panic", "decode-error", "read-error"} {
			if b, err := os.ReadFile(filepath.Join(rd, f)); err == nil {
				bad("plugin-cannot-decode-request/"+f, string(b))
			}
		}
		b, err := os.ReadFile(filepath.Join(rd, "request.json"))
		if err != nil {
			continue
		}
		var got map[string]interface{}
		json.Unmarshal(b, &got)
		if want == nil {
			want = c11ExpectedRequest(r, c, be)
			if want == nil {
				return
			}
		}
		w := map[string]interface{}{}
		for k, v := range want {
			w[k] = v
		}
		w["PluginParameters"] = c11Pack(c.popts[si])
		r.Eval(1)
		var diffs []c15Diff
		c15Compare(c11NormFilenames(w), c11NormFilenames(got), "", "", &diffs)
		if len(diffs) > 0 {
			d := diffs[0]
			bad("request-differs/"+c11Site(d.site), fmt.Sprintf("the request the plugin decoded differs from the compiler's at %s: %s", d.site, d.detail))
		} else {
			r.Sig("external:request-matches-compiler:" + be)
			if len(c.popts[si]) > 0 {
				r.Sig("external:parameters-in-order")
			}
		}
	}
	// ---- what thriftgo did with the answer ----
	r.Eval(1)
	if c.fail {
		switch {
		case c.res.Exit == 0:
			bad("fault-ignored/"+c.name, "thriftgo exits 0 although the plugin failed")
		case len(c.tree) > 0:
			var names []string
			for n := range c.tree {
				names = append(names, n)
			}
			bad("output-despite-plugin-failure/"+c.name, fmt.Sprintf("thriftgo fails but writes %d file(s): %v", len(names), vlib.Trunc(strings.Join(names, " "), 300)))
		default:
			r.Sig("external:" + c.name + ":failure-propagated")
		}
	} else {
		if c.res.Exit != 0 {
			bad("good-answer-rejected/"+c.name, "thriftgo fails although the plugin answered properly")
			return
		}
		ok := true
		for name, content := range c.files {
			b, err := os.ReadFile(filepath.Join(c.dir, name))
			switch {
			case err != nil:
				bad("plugin-file-missing/"+c.name, "the plugin's file "+name+" did not reach the output")
				ok = false
			case string(b) != content:
				bad("plugin-file-content/"+c.name, fmt.Sprintf("the plugin's file %s holds %q, want %q", name, vlib.Trunc(string(b), 200), content))
				ok = false
			}
		}
		// the backend's own files are there as well
		gof := 0
		for n := range c.tree {
			if strings.HasSuffix(n, ".go") {
				gof++
			}
		}
		if gof == 0 {
			bad("backend-output-missing/"+c.name, "no generated Go file next to the plugin's files")
			ok = false
		}
		if ok {
			r.Sig("external:" + c.name + ":honoured")
		}
	}
	for _, w := range c.warn {
		r.Eval(1)
		if !strings.Contains(out, w) {
			bad("message-not-shown/"+c.name, fmt.Sprintf("the plugin's message %q is not shown", w))
		} else {
			r.Sig("external:message-shown:" + c.name)
		}
	}
	if c.killed {
		r.Eval(1)
		pidb, _ := os.ReadFile(filepath.Join(c.dir, "rec", "started"))
		pid := strings.TrimSpace(string(pidb))
		_, woke := os.Stat(filepath.Join(c.dir, "rec", "woke-up"))
		alive := false
		if st, err := os.ReadFile("/proc/" + pid + "/stat"); err == nil && pid != "" && bytes.Contains(st, []byte("(recplugin)")) && !bytes.Contains(st, []byte(") Z")) {
			alive = true
		}
		switch {
		case woke == nil:
			bad("time-limit/plugin-ran-to-the-end", "the plugin slept beyond --plugin-time-limit and woke up normally: nobody killed it")
		case alive:
			bad("time-limit/plugin-still-running", "thriftgo returned but the plugin process "+pid+" is still alive")
		default:
			r.Sig("external:" + c.name + ":plugin-killed")
		}
	}
}

func c11Pack(opts string) interface{} {
	out := []interface{}{}
	if opts == "" {
		return out
	}
	for _, a := range strings.Split(opts, ",") {
		kv := strings.SplitN(a, "=", 2)
		if len(kv) == 2 {
			out = append(out, kv[0]+"="+kv[1])
		} else {
			out = append(out, kv[0]+"=")
		}
	}
	return out
}

// c11ExpectedRequest builds the request the compiler must have built for the case, from the same files.
func c11ExpectedRequest(r *vlib.Run, c *c11Case, be string) map[string]interface{} {
	root, stage, err := harness.Frontend(filepath.Join(c.dir, "idl", "main.thrift"))
	if err != nil {
		r.Inconclusive(fmt.Sprintf("front end rejects a generated program (%s): %v", stage, err))
		return nil
	}
	gp := []string{}
	if parts := strings.SplitN(c.gen, ":", 2); len(parts) == 2 {
		for _, x := range c11Pack(parts[1]).([]interface{}) {
			gp = append(gp, x.(string))
		}
	}
	req := &plugin.Request{Version: version.ThriftgoVersion, GeneratorParameters: gp, Language: be, OutputPath: "out", Recursive: c.recursive, AST: root}
	var m map[string]interface{}
	json.Unmarshal(c11JSON(guest.Canon(req)), &m)
	return m
}

// c11NormFilenames rewrites file names to the part below the program root ("idl/").
func c11NormFilenames(v interface{}) interface{} {
	switch x := v.(type) {
	case map[string]interface{}:
		out := map[string]interface{}{}
		for k, e := range x {
			if s, ok := e.(string); ok && k == "Filename" {
				if i := strings.LastIndex(s, "idl/"); i >= 0 {
					s = s[i:]
				}
				out[k] = s
				continue
			}
			out[k] = c11NormFilenames(e)
		}
		return out
	case []interface{}:
		out := make([]interface{}, len(x))
		for i, e := range x {
			out[i] = c11NormFilenames(e)
		}
		return out
	}
	return v
}
