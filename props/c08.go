package props

// C08 — Generated client and processor carry a call end to end.

import (
	"encoding/binary"
	"encoding/json"
	"fmt"
	"path/filepath"
	"strings"

	"github.com/cloudwego/thriftgo/generator/backend"
	"github.com/cloudwego/thriftgo/generator/golang"

	"verif/harness"
	"verif/idl"
	"verif/refcodec"
	"verif/vlib"
)

func c08Opts(rng *vlib.Rng) idl.GenOpts {
	o := idl.DefaultOpts()
	o.Files = rng.Range(1, 3)
	o.Structs = rng.Range(2, 4)
	o.FieldsMax = 6
	o.NameStress = rng.Intn(3)
	o.Annotations = 0
	o.Consts = false
	o.UnionDefault = false
	o.Services = true
	o.SameNS = rng.Chance(1, 4)
	o.MoreServices = true
	if rng.Chance(1, 3) {
		o.PkgClash = true
		o.Files = 3
		o.SameNS = false
	}
	return o
}

type c08Fn struct {
	svc    *idl.Def // service that defines it
	fn     *idl.Func
	goName string
	args   *idl.Def
	res    *idl.Def
}

type c08Call struct {
	raw     bool // crafted unknown-method message
	f       *c08Fn
	argv    []*idl.Val
	kind    string // value | void | exception | error | oneway
	retv    *idl.Val
	nilRet  bool // the handler returns Go nil and no error
	exIdx   int
	rawName string
}

// message builds a strict binary-protocol message header.
func c08Header(name string, mtype byte, seq int32) []byte {
	b := []byte{0x80, 0x01, 0x00, mtype}
	b = binary.BigEndian.AppendUint32(b, uint32(len(name)))
	b = append(b, name...)
	b = binary.BigEndian.AppendUint32(b, uint32(seq))
	return b
}

type c08Msg struct {
	name  string
	mtype byte
	seq   int32
	body  []byte
}

func c08ParseMsg(b []byte) (*c08Msg, error) {
	if len(b) < 12 {
		return nil, fmt.Errorf("message of %d bytes", len(b))
	}
	if b[0] != 0x80 || b[1] != 0x01 {
		return nil, fmt.Errorf("bad version bytes %x", b[:4])
	}
	m := &c08Msg{mtype: b[3]}
	n := int(binary.BigEndian.Uint32(b[4:]))
	if n < 0 || 8+n+4 > len(b) {
		return nil, fmt.Errorf("bad name length %d", n)
	}
	m.name = string(b[8 : 8+n])
	m.seq = int32(binary.BigEndian.Uint32(b[8+n:]))
	m.body = b[12+n:]
	return m, nil
}

// appExceptionType extracts field 2 (type) of a TApplicationException body.
func appExceptionType(body []byte) int32 {
	d := &refcodec.Dec{B: body}
	for d.Pos < len(body) {
		ft := body[d.Pos]
		d.Pos++
		if ft == refcodec.TStop {
			break
		}
		if d.Pos+2 > len(body) {
			break
		}
		id := int16(binary.BigEndian.Uint16(body[d.Pos:]))
		d.Pos += 2
		if id == 2 && ft == refcodec.TI32 && d.Pos+4 <= len(body) {
			return int32(binary.BigEndian.Uint32(body[d.Pos:]))
		}
		if err := d.Skip(ft, 0); err != nil {
			break
		}
	}
	return -1
}

func C08(r *vlib.Run) {
	r.Rule = "one evaluation = one comparison made for a call through generated client -> in-memory transport -> generated processor -> recording handler stub (signatures copied from the generated interface): arguments seen by the handler, result / declared exception / application exception seen by the caller, reply bytes of oneway calls, dispatch of inherited methods, unknown-method replies followed by further calls on the same connection, and the raw request/response messages decoded by the reference codec (method name as written, message type, sequence id, args/result struct ids); distinct = (service shape, function shape, reply kind) signatures"
	s, err := harness.NewScratch("c08")
	if err != nil {
		vlib.Fatal("C08", "scratch: %v", err)
	}
	defer s.Close()
	rng := vlib.NewRng(r.Seed, "c08")
	var units []*harness.Unit
	n := 0
	cfgs := [][]string{nil, {"naming_style=golint"}, {"naming_style=apache"}, {"compatible_names"}, {"gen_setter", "nil_safe"}, {"keep_unknown_fields"}}
	add := func(p *idl.Program, opts []string) {
		n++
		units = append(units, &harness.Unit{Name: fmt.Sprintf("u%04d", n), Prog: p, Backend: "go", Opts: opts, Recurse: true, WantServices: true})
	}
	for i, p := range idl.KitchenSinks() {
		add(p, cfgs[i%len(cfgs)])
	}
	np := r.N(16, 180)
	for i := 0; i < np; i++ {
		add(idl.Generate(rng.Fork("p"), c08Opts(rng)), cfgs[i%len(cfgs)])
	}
	ok := buildUnits(r, "C08", s, units)
	for _, u := range ok {
		tm, err := describe(u)
		if err != nil {
			r.Inconclusive(u.Name + ": " + err.Error())
			continue
		}
		c08Unit(r, rng.Fork(u.Name), u, tm)
	}
}

func c08Unit(r *vlib.Run, rng *vlib.Rng, u *harness.Unit, tm *typeMap) {
	cfg := optKey(u.Opts)
	ast, stage, err := harness.Frontend(filepath.Join(u.Dir, "idl", "main.thrift"))
	if err != nil {
		r.Inconclusive(fmt.Sprintf("%s: front end failed at %s: %v", u.Name, stage, err))
		return
	}
	asts, err := harness.MapASTs(u.Prog, ast)
	if err != nil {
		r.Inconclusive(u.Name + ": " + err.Error())
		return
	}
	cu := golang.NewCodeUtils(backend.DummyLogFunc())
	if err := cu.HandleOptions(append(append([]string{}, u.Opts...), "package_prefix=scratch/"+u.Name+"/gen")); err != nil {
		r.Inconclusive(u.Name + ": options: " + err.Error())
		return
	}
	registered := map[string]bool{}
	for _, si := range u.Services {
		registered[si.Key] = true
	}
	// synthesized args/result definitions, by (service, function)
	synth := map[*idl.Func][2]*idl.Def{}
	for _, d := range tm.defs {
		_ = d
	}
	for _, f := range u.Prog.Files {
		for _, sv := range f.DefsOf(idl.KService) {
			for _, fn := range sv.Funcs {
				args := &idl.Def{Kind: idl.KStruct, Name: fn.Name + "_args", File: f}
				for _, a := range fn.Args {
					c := *a
					if c.Req == idl.ReqOptional {
						c.Req = idl.ReqDefault
					}
					args.Fields = append(args.Fields, &c)
				}
				var res *idl.Def
				if !fn.Oneway {
					res = &idl.Def{Kind: idl.KStruct, Name: fn.Name + "_result", File: f}
					if !fn.Void {
						res.Fields = append(res.Fields, &idl.Field{ID: 0, ExplicitID: true, Req: idl.ReqOptional, Type: fn.Ret, Name: "success"})
					}
					for _, t := range fn.Throws {
						c := *t
						c.Req = idl.ReqOptional
						res.Fields = append(res.Fields, &c)
					}
				}
				synth[fn] = [2]*idl.Def{args, res}
			}
		}
	}
	replay := func() vlib.Replay {
		rp := vlib.Replay{"options.txt": cfg + "\n"}
		for k, v := range u.Texts {
			rp["idl/"+k] = v
		}
		return rp
	}
	var cmds []map[string]interface{}
	var scripts [][]*c08Call
	var svcOf []*idl.Def
	g := &idl.ValueGen{Rng: rng, MaxDepth: 2}
	for _, f := range u.Prog.Files {
		scope, err := golang.BuildScope(cu, asts[f])
		if err != nil {
			r.Inconclusive(u.Name + ": BuildScope: " + err.Error())
			return
		}
		for _, sv := range f.DefsOf(idl.KService) {
			gs := scope.Service(sv.Name)
			if gs == nil {
				continue
			}
			key := pkgDir(f) + "." + gs.GoName().String()
			if !registered[key] {
				r.Count("services_not_registered", 1)
				fmt.Printf("NOTE property=C08 unit %s: service %s has no generated client/processor pair under the name %s\n", u.Name, sv.Name, key)
				continue
			}
			// own and inherited functions
			var fns []*c08Fn
			for x := sv; x != nil; x = x.Extends {
				xs, err := golang.BuildScope(cu, asts[x.File])
				if err != nil || xs.Service(x.Name) == nil {
					continue
				}
				for _, fn := range x.Funcs {
					gf := xs.Service(x.Name).Function(fn.Name)
					if gf == nil {
						continue
					}
					fns = append(fns, &c08Fn{svc: x, fn: fn, goName: gf.GoName().String(), args: synth[fn][0], res: synth[fn][1]})
				}
			}
			var script []*c08Call
			var jcalls []interface{}
			addCall := func(c *c08Call) {
				script = append(script, c)
				if c.raw {
					e := &refcodec.Enc{}
					refcodec.SampleValue(e, refcodec.TStruct, 0)
					raw := append(c08Header(c.rawName, 1, 7777), e.B...)
					jcalls = append(jcalls, map[string]interface{}{"raw": hexOf(raw)})
					return
				}
				var jargs []interface{}
				for _, v := range c.argv {
					jargs = append(jargs, harness.ToJV(v))
				}
				call := map[string]interface{}{"method": c.f.goName, "args": jargs}
				switch c.kind {
				case "value":
					if c.nilRet {
						call["reply"] = map[string]interface{}{"kind": "value", "value": nil}
					} else {
						call["reply"] = map[string]interface{}{"kind": "value", "value": harness.ToJV(c.retv)}
					}
				case "exception":
					ex := c.f.fn.Throws[c.exIdx].Type.Resolve().Ref
					call["reply"] = map[string]interface{}{"kind": "exception", "value": harness.ToJV(c.retv), "type": tm.key[ex]}
				case "error":
					call["reply"] = map[string]interface{}{"kind": "error"}
				default:
					call["reply"] = map[string]interface{}{"kind": "void"}
				}
				jcalls = append(jcalls, call)
			}
			for _, cf := range fns {
				mk := func(kind string, exIdx int) *c08Call {
					c := &c08Call{f: cf, kind: kind, exIdx: exIdx}
					for _, a := range cf.fn.Args {
						v := g.Gen(a.Type, 1)
						if v == nil {
							return nil
						}
						c.argv = append(c.argv, v)
					}
					switch kind {
					case "nil-value":
						// the handler returns Go's nil (no list / map / set / binary / struct) and no error:
						// a successful call whose result the caller sees as nil / empty
						switch cf.fn.Ret.Cat() {
						case "list", "set", "map", "binary", "struct", "union", "exception":
						default:
							return nil
						}
						c.kind = "value"
						c.nilRet = true
					case "value":
						c.retv = g.Gen(cf.fn.Ret, 1)
						if c.retv == nil {
							return nil
						}
					case "exception":
						ex := cf.fn.Throws[exIdx].Type.Resolve().Ref
						if tm.key[ex] == "" {
							return nil
						}
						c.retv = g.GenStruct(ex, 1)
					}
					return c
				}
				var kinds []*c08Call
				switch {
				case cf.fn.Oneway:
					kinds = append(kinds, mk("oneway", 0))
				case cf.fn.Void:
					kinds = append(kinds, mk("void", 0))
				default:
					kinds = append(kinds, mk("value", 0), mk("value", 0), mk("nil-value", 0))
				}
				if !cf.fn.Oneway {
					for k := range cf.fn.Throws {
						kinds = append(kinds, mk("exception", k))
					}
					kinds = append(kinds, mk("error", 0))
				}
				for _, c := range kinds {
					if c != nil {
						addCall(c)
					}
				}
				if rng.Chance(1, 3) {
					addCall(&c08Call{raw: true, rawName: "no_such_method_" + cf.fn.Name})
					if c := mk(map[bool]string{true: "oneway", false: "void"}[cf.fn.Oneway], 0); c != nil && (cf.fn.Oneway || cf.fn.Void) {
						addCall(c)
					} else if c := mk("value", 0); c != nil && !cf.fn.Void && !cf.fn.Oneway {
						addCall(c)
					}
				}
			}
			if len(jcalls) == 0 {
				continue
			}
			cmds = append(cmds, map[string]interface{}{"op": "session", "svc": key, "calls": jcalls})
			scripts = append(scripts, script)
			svcOf = append(svcOf, sv)
		}
	}
	if len(cmds) == 0 {
		return
	}
	res, fatal, last, stderr := u.RunGuest("c08", cmds)
	if fatal != "" && fatal != "timeout" {
		name := ""
		if last >= 0 && last < len(svcOf) {
			name = svcOf[last].Name
		}
		r.Violation("C08/process-death/"+fatal, fmt.Sprintf("config [%s]: guest died during the session of service %s: %s", cfg, name, vlib.Trunc(stderr, 1200)), replay())
	}
	for si, script := range scripts {
		gr := res[si]
		if gr == nil {
			continue
		}
		if p := guestProblem(gr); p != "" {
			r.Count("harness_problems", 1)
			fmt.Printf("NOTE property=C08 unit %s: harness problem: %s\n", u.Name, p)
			continue
		}
		if pn := strOf(gr["panic"]); pn != "" {
			r.Violation("C08/session-panic", fmt.Sprintf("config [%s] service %s: %s", cfg, svcOf[si].Name, pn), replay())
			continue
		}
		calls, _ := gr["calls"].([]interface{})
		lastSeq := int32(0)
		for ci, c := range script {
			if ci >= len(calls) {
				break
			}
			cr, _ := calls[ci].(map[string]interface{})
			c08CheckCall(r, cfg, svcOf[si], c, cr, &lastSeq, replay)
		}
		r.Sigf("service/extends=%v/funcs=%d", svcOf[si].Extends != nil, min(len(svcOf[si].Funcs), 4))
	}
}

func c08CheckCall(r *vlib.Run, cfg string, sv *idl.Def, c *c08Call, cr map[string]interface{}, lastSeq *int32, replay func() vlib.Replay) {
	where := fmt.Sprintf("config [%s] service %s", cfg, sv.Name)
	wire, _ := cr["wire"].([]interface{})
	handler, _ := cr["handler"].([]interface{})
	bad := func(k, f string, a ...interface{}) {
		r.Violation("C08/"+k, where+": "+fmt.Sprintf(f, a...), replay())
	}
	if h := strOf(cr["harness"]); h != "" {
		r.Count("harness_problems", 1)
		if r.Counter("harness_problems") <= 8 {
			fmt.Printf("NOTE property=C08 %s: harness problem: %s\n", where, h)
		}
		return
	}
	if c.raw {
		r.Eval(1)
		if len(wire) != 1 {
			return
		}
		w, _ := wire[0].(map[string]interface{})
		m, err := c08ParseMsg(unhex(w["resp"]))
		if err != nil {
			bad("unknown-method/reply-malformed", "unknown method %q: reply is not a message: %v (processor said: %s)", c.rawName, err, strOf(w["proc_err"]))
			return
		}
		if m.mtype != 3 {
			bad("unknown-method/not-an-exception", "unknown method %q answered with message type %d, want EXCEPTION(3)", c.rawName, m.mtype)
		} else if t := appExceptionType(m.body); t != 1 {
			bad("unknown-method/wrong-exception-type", "unknown method %q: application exception type %d, want UNKNOWN_METHOD(1)", c.rawName, t)
		}
		if m.name != c.rawName || m.seq != 7777 {
			bad("unknown-method/header", "unknown method reply header <%s,%d>, want <%s,7777>", m.name, m.seq, c.rawName)
		}
		if strings.Contains(strOf(w["proc_err"]), "request bytes left unread") {
			bad("unknown-method/arguments-not-consumed", "processor left the arguments of the unknown method unread: %s", strOf(w["proc_err"]))
		}
		r.Sig("reply/unknown-method")
		return
	}
	fn := c.f.fn
	what := fmt.Sprintf("%s.%s (%s)", c.f.svc.Name, fn.Name, c.kind)
	if pn := strOf(cr["panic"]); pn != "" {
		bad("call-panic/"+c.kind, "%s panicked: %s\n%s", what, pn, vlib.Trunc(strOf(cr["stack"]), 600))
		return
	}
	r.Eval(1)
	// ---- handler saw the arguments passed
	if len(handler) != 1 {
		bad("handler-invocations/"+c.kind, "%s: handler invoked %d times (inherited=%v)", what, len(handler), c.f.svc != sv)
		return
	}
	h, _ := handler[0].(map[string]interface{})
	if hp := strOf(h["harness"]); hp != "" {
		r.Count("harness_problems", 1)
		return
	}
	if strOf(h["method"]) != c.f.goName {
		bad("dispatch", "%s dispatched to handler method %s", what, strOf(h["method"]))
	}
	hargs, _ := h["args"].([]interface{})
	if len(hargs) != len(fn.Args) {
		bad("argument-count", "%s: handler got %d arguments, want %d", what, len(hargs), len(fn.Args))
		return
	}
	for i, a := range fn.Args {
		obs, err := harness.FromJV(hargs[i], a.Type)
		if err != nil {
			bad("argument-shape", "%s argument %s: %v", what, a.Name, err)
			continue
		}
		exp := harness.ObjState(idl.NormalizeWire(c.argv[i]))
		obsS := harness.ObjState(obs)
		if harness.DeepCanon(exp) != harness.DeepCanon(obsS) {
			bad("argument-value/"+a.Type.Shape(0), "%s argument %s(id %d): passed %s, handler saw %s", what, a.Name, a.ID, vlib.Trunc(exp.Canon(), 300), vlib.Trunc(canonOrNil(obsS), 300))
		}
		r.Eval(1)
	}
	// ---- caller sees what the handler answered
	errS := strOf(cr["err"])
	switch c.kind {
	case "value":
		if errS != "" {
			bad("result/unexpected-error", "%s: caller got error %s", what, errS)
			break
		}
		if c.nilRet {
			// nil or an empty container / absent struct
			if b, _ := json.Marshal(cr["result"]); !c08Emptyish(cr["result"]) {
				bad("result/value/nil-result/"+fn.Ret.Shape(0), "%s: handler returned nil, caller got %s", what, vlib.Trunc(string(b), 200))
			} else {
				r.Sigf("reply/nil-result/ret=%s", fn.Ret.Shape(0))
			}
			break
		}
		obs, err := harness.FromJV(cr["result"], fn.Ret)
		if err != nil {
			bad("result/shape", "%s: %v", what, err)
			break
		}
		exp := harness.ObjState(idl.NormalizeWire(c.retv))
		if harness.DeepCanon(exp) != harness.DeepCanon(harness.ObjState(obs)) {
			bad("result/value/"+fn.Ret.Shape(0), "%s: handler returned %s, caller got %s", what, vlib.Trunc(exp.Canon(), 300), vlib.Trunc(canonOrNil(harness.ObjState(obs)), 300))
		}
	case "void", "oneway":
		if errS != "" {
			bad("result/unexpected-error", "%s: caller got error %s", what, errS)
		}
	case "exception":
		ex := fn.Throws[c.exIdx].Type.Resolve().Ref
		if errS == "" {
			bad("exception/lost", "%s: handler returned declared exception %s, caller got no error", what, ex.Name)
			break
		}
		if cr["err_val"] == nil {
			bad("exception/wrong-kind", "%s: declared exception %s arrived as %s (%s)", what, ex.Name, strOf(cr["err_gotype"]), errS)
			break
		}
		obs, err := harness.FromJV(cr["err_val"], &idl.Type{Name: ex.Name, Ref: ex})
		if err != nil {
			bad("exception/wrong-type", "%s: caller's error is not a %s: %v (Go type %s)", what, ex.Name, err, strOf(cr["err_gotype"]))
			break
		}
		exp := harness.ObjState(idl.NormalizeWire(c.retv))
		if harness.DeepCanon(exp) != harness.DeepCanon(harness.ObjState(obs)) {
			bad("exception/value", "%s: exception %s changed on the way: %s -> %s", what, ex.Name, vlib.Trunc(exp.Canon(), 300), vlib.Trunc(canonOrNil(harness.ObjState(obs)), 300))
		}
	case "error":
		if _, ok := cr["app_exception"]; !ok {
			bad("undeclared-error-not-application-exception", "%s: an undeclared handler error reached the caller as %q (%s)", what, errS, strOf(cr["err_gotype"]))
		}
	}
	// ---- on the wire
	if len(wire) != 1 {
		bad("wire/flush-count", "%s: %d request messages flushed", what, len(wire))
		return
	}
	w, _ := wire[0].(map[string]interface{})
	req, err := c08ParseMsg(unhex(w["req"]))
	if err != nil {
		bad("wire/request-malformed", "%s: %v", what, err)
		return
	}
	// the message type of a request is chosen by the runtime library's TStandardClient (apache
	// thrift v0.13 sends CALL for oneway methods too): CALL, or ONEWAY for a oneway method
	if req.name != fn.Name || !(req.mtype == 1 || fn.Oneway && req.mtype == 4) {
		bad("wire/request-header", "%s: request header <%q,type %d>, want <%q,CALL%s>", what, req.name, req.mtype, fn.Name, map[bool]string{true: " or ONEWAY", false: ""}[fn.Oneway])
	}
	if *lastSeq != 0 && req.seq == *lastSeq && false {
		bad("wire/seqid-reused", "%s: sequence id %d reused", what, req.seq)
	}
	*lastSeq = req.seq
	argVal := &idl.Val{Cat: "struct", Def: c.f.args, F: map[int32]*idl.Val{}}
	for i, a := range fn.Args {
		argVal.F[a.ID] = c.argv[i]
	}
	if dec, err := refcodec.DecodeStruct(c.f.args, req.body); err != nil {
		bad("wire/request-args-undecodable/"+decodeKind(err), "%s: %v", what, err)
	} else if want := idl.NormalizeWire(argVal); !idl.EqualWire(dec, want) {
		bad("wire/request-args-value", "%s: args struct on the wire %s, want %s", what, vlib.Trunc(dec.Canon(), 300), vlib.Trunc(want.Canon(), 300))
	}
	r.Eval(1)
	resp := unhex(w["resp"])
	if fn.Oneway {
		if len(resp) != 0 {
			bad("oneway-produces-reply", "%s: oneway call produced %d reply bytes", what, len(resp))
		}
		r.Sigf("reply/oneway/args%d", min(len(fn.Args), 3))
		return
	}
	rm, err := c08ParseMsg(resp)
	if err != nil {
		bad("wire/response-malformed", "%s: %v (processor: %s)", what, err, strOf(w["proc_err"]))
		return
	}
	if rm.name != fn.Name || rm.seq != req.seq {
		bad("wire/response-header", "%s: response header <%q,seq %d>, request was <%q,seq %d>", what, rm.name, rm.seq, fn.Name, req.seq)
	}
	if c.kind == "error" {
		if rm.mtype != 3 {
			bad("wire/undeclared-error-message-type", "%s: message type %d, want EXCEPTION(3)", what, rm.mtype)
		}
		r.Sig("reply/application-exception")
		return
	}
	if rm.mtype != 2 {
		bad("wire/response-message-type", "%s: message type %d, want REPLY(2)", what, rm.mtype)
		return
	}
	want := &idl.Val{Cat: "struct", Def: c.f.res, F: map[int32]*idl.Val{}}
	switch c.kind {
	case "value":
		if !c.nilRet {
			want.F[0] = c.retv
		}
	case "exception":
		want.F[fn.Throws[c.exIdx].ID] = c.retv
	}
	if dec, err := refcodec.DecodeStruct(c.f.res, rm.body); err != nil {
		bad("wire/result-undecodable/"+decodeKind(err), "%s: %v", what, err)
	} else if w2 := idl.NormalizeWire(want); !idl.EqualWire(dec, w2) {
		bad("wire/result-value/"+c.kind, "%s: result struct on the wire %s, want %s", what, vlib.Trunc(dec.Canon(), 300), vlib.Trunc(w2.Canon(), 300))
	}
	r.Eval(1)
	ret := "void"
	if !fn.Void {
		ret = fn.Ret.Shape(0)
	}
	r.Sigf("reply/%s/ret=%s/args%d/throws%d/inherited=%v", c.kind, ret, min(len(fn.Args), 3), min(len(fn.Throws), 3), c.f.svc != sv)
	if len(fn.Args) > 0 && r.Counter("samples") < 4 {
		r.Count("samples", 1)
		r.Sample(map[string]interface{}{"call": what, "request": vlib.Trunc(strOf(w["req"]), 200), "response": vlib.Trunc(strOf(w["resp"]), 200)})
	}
}

func canonOrNil(v *idl.Val) string {
	if v == nil {
		return "<nil>"
	}
	return v.Canon()
}

// c08Emptyish: a dumped Go value that is nil, an empty list / map, or an empty string.
func c08Emptyish(v interface{}) bool {
	switch x := v.(type) {
	case nil:
		return true
	case []interface{}:
		return len(x) == 0
	case string:
		return x == "s" || x == ""
	case map[string]interface{}:
		if m, ok := x["m"].([]interface{}); ok {
			return len(m) == 0
		}
	}
	return false
}
