package props

// C20 — Every documented backend option switches exactly its own feature.
//
// The option names and documented defaults are read at run time from /repo/README.md and from
// the `-h` output of the freshly built binary.  The effect of every option is *measured* on the
// real CodeUtils (HandleOptions + public getters) and must be exactly one observable, disjoint
// from every other option's; every list of options must then equal the fold of single effects.

import (
	"fmt"
	goparser "go/parser"
	"go/token"
	"os"
	"path/filepath"
	"reflect"
	"regexp"
	"sort"
	"strings"
	"time"

	"github.com/cloudwego/thriftgo/args"
	"github.com/cloudwego/thriftgo/generator/backend"
	"github.com/cloudwego/thriftgo/generator/golang"
	"github.com/cloudwego/thriftgo/generator/golang/styles"
	"github.com/cloudwego/thriftgo/plugin"

	"verif/vlib"
)

type c20Obs map[string]string

func c20Observe(cu *golang.CodeUtils) c20Obs {
	o := c20Obs{}
	f := cu.Features()
	v := reflect.ValueOf(f)
	t := v.Type()
	for i := 0; i < t.NumField(); i++ {
		o["F."+t.Field(i).Name] = fmt.Sprint(v.Field(i).Interface())
	}
	o["Template"] = cu.Template()
	o["NamingStyle"] = cu.NamingStyle().Name()
	id, err := cu.Identify("user_url")
	if err != nil {
		id = "error:" + err.Error()
	}
	o["Initialisms"] = fmt.Sprint(strings.Contains(id, "URL"))
	o["PackagePrefix"] = cu.GetPackagePrefix()
	return o
}

func c20Apply(opts []string) (c20Obs, error) {
	// naming styles are process-wide singletons; give every measurement the state of a fresh process
	for _, n := range styles.NamingStyles() {
		styles.NewNamingStyle(n).UseInitialisms(true)
	}
	cu := golang.NewCodeUtils(backend.DummyLogFunc())
	if err := cu.HandleOptions(opts); err != nil {
		return nil, err
	}
	return c20Observe(cu), nil
}

func c20Diff(a, b c20Obs) map[string]string {
	d := map[string]string{}
	for k, v := range b {
		if a[k] != v {
			d[k] = v
		}
	}
	for k := range a {
		if _, ok := b[k]; !ok {
			d[k] = "<gone>"
		}
	}
	return d
}

type c20Opt struct {
	Name     string
	Valued   bool   // takes a non-boolean value
	Default  string // documented default ("true"/"false" for booleans)
	InReadme bool
	InHelp   bool
	Observ   string // the one observable it switches (measured)
}

// c20Documented parses README.md's option table and the -h text.
func c20Documented(r *vlib.Run) map[string]*c20Opt {
	opts := map[string]*c20Opt{}
	readme, err := os.ReadFile(filepath.Join(repoDir(), "README.md"))
	if err != nil {
		vlib.Fatal("C20", "cannot read README.md: %v", err)
	}
	sec := string(readme)
	if i := strings.Index(sec, "### Go backend options"); i >= 0 {
		sec = sec[i:]
		if j := strings.Index(sec[10:], "\n## "); j >= 0 {
			sec = sec[:j+10]
		}
	} else {
		vlib.Fatal("C20", "README.md has no 'Go backend options' section")
	}
	rowRe := regexp.MustCompile("(?m)^\\| `([a-z_0-9]+)(=[^`]*)?` \\| ([^|]*)\\|")
	for _, m := range rowRe.FindAllStringSubmatch(sec, -1) {
		o := &c20Opt{Name: m[1], Valued: m[2] != "", InReadme: true}
		def := strings.Trim(strings.TrimSpace(m[3]), "*` ")
		if !o.Valued {
			switch def {
			case "true", "false":
				o.Default = def
			default:
				r.Violation("C20/readme-default-unparsable/"+o.Name, "README default column for boolean option "+o.Name+" is "+def, nil)
			}
		} else {
			o.Default = def
		}
		opts[o.Name] = o
	}
	help := vlib.RunCLI("", nil, 60*time.Second, vlib.Bin("thriftgo"), "-h")
	text := help.Stdout + help.Stderr
	if i := strings.Index(text, "Available generators"); i >= 0 {
		text = text[i:]
	} else {
		vlib.Fatal("C20", "thriftgo -h prints no 'Available generators' section: %s", vlib.Trunc(text, 300))
	}
	helpRe := regexp.MustCompile(`(?m)^\s{2,}([a-z_0-9]+):\s+(.*)$`)
	for _, m := range helpRe.FindAllStringSubmatch(text, -1) {
		o := opts[m[1]]
		if o == nil {
			o = &c20Opt{Name: m[1], Default: "false"}
			// valued options known from their help text form
			if strings.Contains(m[2], "Form:") || strings.Contains(m[2], "import path") || strings.Contains(m[2], "naming style") || strings.Contains(m[2], "prefix") || strings.Contains(m[2], "template") {
				o.Valued = true
			}
			opts[m[1]] = o
		}
		o.InHelp = true
		enabled := strings.Contains(m[2], "(Enabled by default)")
		if !o.Valued && o.InReadme {
			if enabled != (o.Default == "true") {
				r.Violation("C20/doc-default-disagree/"+o.Name, fmt.Sprintf("README says default %s, -h says enabled-by-default=%v", o.Default, enabled), nil)
			}
		} else if !o.Valued && enabled {
			o.Default = "true"
		}
	}
	return opts
}

func repoDir() string {
	if d := os.Getenv("VERIF_REPO"); d != "" {
		return d
	}
	return "/repo"
}

type c20Setting struct {
	Opt   *c20Opt
	Text  string            // as written in the option list
	Valid bool              // documented as acceptable
	Delta map[string]string // expected change of observables (filled after measuring)
}

func C20(r *vlib.Run) {
	r.Rule = "settings = every documented option name x {bare,=true,=false,=garbage} (+ each documented value of valued options); evaluations = HandleOptions executions whose full observable state (all Features fields by reflection, Template, NamingStyle, initialisms via Identify, PackagePrefix) was compared with the fold of measured single-option effects, plus CLI runs; singles and ordered pairs are exhaustive; distinct = distinct (setting), (setting,setting) and list-shape signatures"
	opts := c20Documented(r)
	var names []string
	for n := range opts {
		names = append(names, n)
	}
	sort.Strings(names)
	if len(names) < 30 {
		vlib.Fatal("C20", "only %d documented options found", len(names))
	}
	r.SetExtra("documented_options", names)
	base, err := c20Apply(nil)
	if err != nil {
		r.Violation("C20/empty-options-rejected", err.Error(), nil)
		return
	}
	ctxFor := func(name string) []string {
		if name == "with_field_mask" {
			return []string{"with_reflection"}
		}
		return nil
	}
	featTag := map[string]string{} // Features field name -> tag key
	{
		t := reflect.TypeOf(golang.Features{})
		for i := 0; i < t.NumField(); i++ {
			featTag["F."+t.Field(i).Name] = strings.SplitN(string(t.Field(i).Tag), ":", 2)[0]
		}
	}

	// ---- singles (exhaustive): measure and check each option's own effect
	owner := map[string]string{} // observable -> option
	var settings []*c20Setting
	for _, n := range names {
		o := opts[n]
		ctx := ctxFor(n)
		ctxState, err := c20Apply(ctx)
		if err != nil {
			vlib.Fatal("C20", "context %v rejected: %v", ctx, err)
		}
		if !o.Valued {
			stT, eT := c20Apply(append(append([]string{}, ctx...), n+"=true"))
			stB, eB := c20Apply(append(append([]string{}, ctx...), n))
			stF, eF := c20Apply(append(append([]string{}, ctx...), n+"=false"))
			_, eG := c20Apply(append(append([]string{}, ctx...), n+"=garbage"))
			_, eG2 := c20Apply(append(append([]string{}, ctx...), n+"=1"))
			r.Eval(5)
			r.Sigf("single/%s", n)
			if eT != nil || eB != nil || eF != nil {
				r.Violation("C20/documented-option-rejected/"+n, fmt.Sprintf("option %s: =true err=%v bare err=%v =false err=%v", n, eT, eB, eF), nil)
				continue
			}
			if eG == nil || eG2 == nil {
				r.Violation("C20/non-boolean-accepted/"+n, fmt.Sprintf("option %s accepted a value that is not a boolean (=garbage err=%v, =1 err=%v)", n, eG, eG2), nil)
			}
			if d := c20Diff(stT, stB); len(d) != 0 {
				r.Violation("C20/bare-differs-from-true/"+n, fmt.Sprintf("%s and %s=true give different states: %v", n, n, d), nil)
			}
			d := c20Diff(stF, stT)
			if len(d) != 1 {
				r.Violation("C20/effect-not-exactly-one/"+n, fmt.Sprintf("%s=true vs %s=false differ in %d observables: %v", n, n, len(d), d), nil)
				continue
			}
			for k := range d {
				o.Observ = k
			}
			if prev, ok := owner[o.Observ]; ok {
				r.Violation("C20/two-options-one-feature/"+n, fmt.Sprintf("options %s and %s both switch %s", prev, n, o.Observ), nil)
			}
			owner[o.Observ] = n
			if tag, ok := featTag[o.Observ]; ok && tag != n {
				r.Violation("C20/option-switches-other-options-feature/"+n, fmt.Sprintf("option %s switches feature %s, which is documented (struct tag / -h) as %s", n, o.Observ, tag), nil)
			}
			if o.Observ != "Initialisms" && (stT[o.Observ] != "true" || stF[o.Observ] != "false") {
				r.Violation("C20/value-inverted/"+n, fmt.Sprintf("%s=true gives %s=%s", n, o.Observ, stT[o.Observ]), nil)
			}
			// documented default
			if ctxState[o.Observ] != o.Default && o.Observ != "Initialisms" {
				r.Violation("C20/default-differs-from-documentation/"+n, fmt.Sprintf("documented default of %s is %s, fresh state has %s=%s", n, o.Default, o.Observ, ctxState[o.Observ]), nil)
			}
			// option at its default value changes nothing
			stD := stF
			if o.Default == "true" {
				stD = stT
			}
			if d := c20Diff(ctxState, stD); len(d) != 0 {
				r.Violation("C20/default-value-changes-state/"+n, fmt.Sprintf("%s=%s (its documented default) changes %v", n, o.Default, d), nil)
			}
			ob := o.Observ
			tv, fv := "true", "false"
			if ob == "Initialisms" { // ignore_initialisms=true switches initialisms off
				tv, fv = stT[ob], stF[ob]
			}
			settings = append(settings,
				&c20Setting{o, n, true, map[string]string{ob: tv}},
				&c20Setting{o, n + "=true", true, map[string]string{ob: tv}},
				&c20Setting{o, n + "=false", true, map[string]string{ob: fv}},
				&c20Setting{o, n + "=garbage", false, nil})
			continue
		}
		// valued options
		var vals, bad []string
		ob := ""
		switch n {
		case "naming_style":
			vals, bad, ob = []string{"golint", "apache", "thriftgo"}, []string{"nosuchstyle", ""}, "NamingStyle"
		case "template":
			vals, bad, ob = []string{"slim", "raw_struct"}, []string{"nosuchtemplate"}, "Template"
		case "package_prefix":
			vals, ob = []string{"example.com/pre", "x/y"}, "PackagePrefix"
		case "thrift_import_path":
			vals = []string{"example.com/thrift"}
		case "use_package":
			vals, bad = []string{"database/sql/driver=example.com/driver", "fmt=example.com/fmt"}, []string{"malformed", ""}
		default:
			r.Violation("C20/unknown-valued-option/"+n, "documented valued option with no known value domain: "+n, nil)
			continue
		}
		o.Observ = ob
		if ob != "" {
			if prev, ok := owner[ob]; ok {
				r.Violation("C20/two-options-one-feature/"+n, fmt.Sprintf("options %s and %s both switch %s", prev, n, ob), nil)
			}
			owner[ob] = n
		}
		for _, v := range vals {
			st, err := c20Apply([]string{n + "=" + v})
			r.Eval(1)
			r.Sigf("single/%s=%s", n, v)
			if err != nil {
				r.Violation("C20/documented-value-rejected/"+n, fmt.Sprintf("%s=%s rejected: %v", n, v, err), nil)
				continue
			}
			want := map[string]string{}
			if ob != "" && base[ob] != v {
				want[ob] = v
			}
			if d := c20Diff(base, st); !reflect.DeepEqual(d, want) {
				r.Violation("C20/effect-not-exactly-one/"+n, fmt.Sprintf("%s=%s changed %v, expected %v", n, v, d, want), nil)
			}
			delta := map[string]string{}
			if ob != "" {
				delta[ob] = v
			}
			settings = append(settings, &c20Setting{o, n + "=" + v, true, delta})
		}
		for _, v := range bad {
			txt := n + "=" + v
			if v == "" {
				txt = n
			}
			_, err := c20Apply([]string{txt})
			r.Eval(1)
			r.Sigf("single/%s", txt)
			if err == nil {
				r.Violation("C20/invalid-value-accepted/"+n, fmt.Sprintf("%q accepted", txt), nil)
			}
			settings = append(settings, &c20Setting{o, txt, false, nil})
		}
	}
	r.SetExtra("settings", len(settings))
	feat := func(opt string) string {
		if o := opts[opt]; o != nil {
			return o.Observ
		}
		return ""
	}

	// expected outcome of a list
	type outcome struct {
		mustFail, mayFail bool
		state             c20Obs
	}
	expect := func(list []*c20Setting) outcome {
		st := c20Obs{}
		for k, v := range base {
			st[k] = v
		}
		for _, s := range list {
			if !s.Valid {
				return outcome{mustFail: true}
			}
			for k, v := range s.Delta {
				st[k] = v
			}
		}
		if st["Template"] == "slim" && feat("gen_deep_equal") != "" {
			st[feat("gen_deep_equal")] = "false" // documented: silently disabled when template=slim
		}
		on := func(opt string) bool { f := feat(opt); return f != "" && st[f] == "true" }
		var out outcome
		out.state = st
		if on("apache_warning") && on("apache_adaptor") { // README: mutually exclusive
			out.mustFail = true
		}
		if on("with_field_mask") && !on("with_reflection") { // README: requires with_reflection
			out.mustFail = true
		}
		// rejected by the implementation without a statement in the documentation: not asserted either way
		if on("snake_style_json_tag") && on("lower_camel_style_json_tag") {
			out.mayFail = true
		}
		if on("always_gen_json_tag") && !on("gen_json_tag") {
			out.mayFail = true
		}
		return out
	}
	check := func(list []*c20Setting, sig string) {
		var txt []string
		for _, s := range list {
			txt = append(txt, s.Text)
		}
		st, err := c20Apply(txt)
		exp := expect(list)
		r.Eval(1)
		r.Sig(sig)
		joined := strings.Join(txt, ",")
		switch {
		case exp.mustFail:
			if err == nil {
				r.Violation("C20/invalid-list-accepted", "option list accepted although documentation makes it invalid: "+joined, vlib.Replay{"options.txt": joined})
			}
		case err != nil:
			if !exp.mayFail {
				r.Violation("C20/valid-list-rejected", fmt.Sprintf("option list %s rejected: %v", joined, err), vlib.Replay{"options.txt": joined})
			}
		default:
			if d := c20Diff(exp.state, st); len(d) != 0 {
				var ks []string
				for k := range d {
					ks = append(ks, k)
				}
				sort.Strings(ks)
				r.Violation("C20/list-state-differs/"+strings.Join(ks, "+"), fmt.Sprintf("after %q: observed %v where the fold of single effects gives %v", joined, d, pick(exp.state, ks)), vlib.Replay{"options.txt": joined})
			}
		}
	}

	// ---- ordered pairs (exhaustive)
	for _, a := range settings {
		for _, b := range settings {
			check([]*c20Setting{a, b}, "pair/"+a.Text+"/"+b.Text)
		}
	}
	// ---- random lists
	rng := vlib.NewRng(r.Seed, "c20lists")
	nl := r.N(100000, 2000000)
	valid := []*c20Setting{}
	for _, s := range settings {
		if s.Valid {
			valid = append(valid, s)
		}
	}
	for i := 0; i < nl; i++ {
		n := rng.Range(3, 10)
		var list []*c20Setting
		for j := 0; j < n; j++ {
			if rng.Chance(1, 60) {
				list = append(list, settings[rng.Intn(len(settings))])
			} else {
				list = append(list, valid[rng.Intn(len(valid))])
			}
		}
		// shape signature: sorted multiset of option names modulo values is too fine; use length + has-invalid + template/style presence
		var shape []string
		for _, s := range list {
			shape = append(shape, s.Opt.Name)
		}
		check(list, fmt.Sprintf("list/%x", vlib.Hash64(strings.Join(shape, ","))))
		if i%(nl/4+1) == 0 {
			var txt []string
			for _, s := range list {
				txt = append(txt, s.Text)
			}
			r.Sample(strings.Join(txt, ","))
		}
	}

	c20CLI(r, opts, names)
}

func pick(m c20Obs, ks []string) map[string]string {
	o := map[string]string{}
	for _, k := range ks {
		o[k] = m[k]
	}
	return o
}

// c20CLI checks the command-line layer: args.Targets()/checkOptions in-process and the binary.
func c20CLI(r *vlib.Run, opts map[string]*c20Opt, names []string) {
	// nested structs force a template on which they are supported
	for _, spec := range []string{"go:enable_nested_struct", "go:gen_setter,enable_nested_struct", "go:enable_nested_struct,template=raw_struct", "go:enable_nested_struct,template=slim", "go:enable_nested_struct=false"} {
		a := &args.Arguments{Langs: []string{spec}}
		specs, err := a.Targets()
		r.Eval(1)
		r.Sig("targets/" + spec)
		if err != nil || len(specs) != 1 {
			r.Violation("C20/targets-rejects-documented-options", fmt.Sprintf("%s: %v", spec, err), nil)
			continue
		}
		st, err := c20Apply(plugin.Pack(specs[0].Options))
		if err != nil {
			r.Violation("C20/targets-output-rejected", fmt.Sprintf("%s -> %v: %v", spec, plugin.Pack(specs[0].Options), err), nil)
			continue
		}
		nested := !strings.Contains(spec, "enable_nested_struct=false")
		tpl := st["Template"]
		switch {
		case nested && !strings.Contains(spec, "template=") && tpl != "slim":
			r.Violation("C20/nested-struct-does-not-force-slim", fmt.Sprintf("%s -> template %q", spec, tpl), nil)
		case nested && tpl != "slim" && tpl != "raw_struct":
			r.Violation("C20/nested-struct-on-unsupported-template", fmt.Sprintf("%s -> template %q", spec, tpl), nil)
		case !nested && tpl == "slim":
			r.Violation("C20/template-forced-without-nested", fmt.Sprintf("%s -> template %q", spec, tpl), nil)
		}
	}

	// binary level
	dir := vlib.ScratchBase("vf-c20-")
	defer os.RemoveAll(dir)
	vlib.WriteFiles(dir, map[string]string{
		"main.thrift": "namespace go c20.main\ninclude \"inc.thrift\"\nenum E { A = 1, B = 2 }\nstruct S { 1: required i32 user_url, 2: optional inc.T t, 3: E e, 4: set<i32> s }\nservice Svc { S call(1: S s) }\n",
		"inc.thrift":  "namespace go c20.inc\nstruct T { 1: string name }\n",
	})
	tg := vlib.Bin("thriftgo")
	n := 0
	run := func(optstr string) (vlib.CLIResult, string, string) {
		n++
		out := filepath.Join(dir, fmt.Sprintf("out%d", n))
		g := "go"
		if optstr != "" {
			g = "go:" + optstr
		}
		res := vlib.RunCLI(dir, nil, 60*time.Second, tg, "-r", "-g", g, "-o", out, "main.thrift")
		set := map[string]bool{}
		files := vlib.TreeFiles(out)
		for _, f := range files {
			af, err := goparser.ParseFile(token.NewFileSet(), filepath.Join(out, f), nil, goparser.ImportsOnly)
			if err != nil {
				set["<unparsable "+f+">"] = true
				continue
			}
			for _, im := range af.Imports {
				set[strings.Trim(im.Path.Value, "\"")] = true
			}
		}
		var l []string
		for k := range set {
			l = append(l, k)
		}
		sort.Strings(l)
		src := ""
		if len(files) > 0 {
			src = strings.Join(l, "\n") + "\n"
		}
		os.RemoveAll(out)
		return res, src, out
	}
	importsOf := func(src string) []string {
		if src == "" {
			return nil
		}
		return strings.Split(strings.TrimSpace(src), "\n")
	}
	baseRes, baseSrc, _ := run("")
	if baseRes.Exit != 0 || baseSrc == "" {
		r.Violation("C20/cli-plain-run-failed", fmt.Sprintf("exit=%d stderr=%s", baseRes.Exit, vlib.Trunc(baseRes.Stderr, 400)), nil)
		return
	}
	baseImports := importsOf(baseSrc)
	hasImport := func(l []string, p string) bool {
		for _, x := range l {
			if x == p {
				return true
			}
		}
		return false
	}
	// every documented option name is accepted by the binary; garbage booleans are rejected with a diagnostic
	for _, name := range names {
		o := opts[name]
		if name == "code_ref" || name == "code_ref_slim" || name == "exp_code_ref" || name == "keep_code_ref_name" || name == "use_option" || name == "thrift_streaming" || name == "streamx" || name == "apache_adaptor" {
			// need extra inputs (idl-ref.yaml, kitex): acceptance of the name is covered in-process
		} else if !o.Valued {
			optstr := name
			if name == "with_field_mask" {
				optstr = "with_reflection,with_field_mask"
			}
			res, src, _ := run(optstr)
			r.Eval(1)
			r.Sig("cli/" + name)
			if res.Exit != 0 || res.Crash != "" {
				r.Violation("C20/cli-documented-option-fails/"+name, fmt.Sprintf("thriftgo -g go:%s: exit=%d crash=%q stderr=%s", optstr, res.Exit, res.Crash, vlib.Trunc(res.Stderr, 400)), nil)
			} else if src == "" && name != "skip_go_gen" {
				r.Violation("C20/cli-no-output/"+name, "exit 0 without output for -g go:"+optstr, nil)
			}
		}
		if !o.Valued {
			res, src, _ := run(name + "=garbage")
			r.Eval(1)
			r.Sig("cli-garbage/" + name)
			if res.Exit == 0 {
				r.Violation("C20/cli-non-boolean-accepted/"+name, "thriftgo -g go:"+name+"=garbage exits 0", nil)
			} else if res.Crash != "" || strings.TrimSpace(res.Stderr+res.Stdout) == "" {
				r.Violation("C20/cli-rejection-without-diagnostic/"+name, fmt.Sprintf("crash=%q stderr=%q", res.Crash, vlib.Trunc(res.Stderr, 300)), nil)
			} else if src != "" {
				r.Violation("C20/cli-rejection-writes-output/"+name, "output written although option value was rejected", nil)
			}
		}
	}
	for _, bad := range []string{"naming_style=nosuch", "template=nosuch", "use_package=malformed", "apache_warning,apache_adaptor", "with_field_mask"} {
		res, src, _ := run(bad)
		r.Eval(1)
		r.Sig("cli-bad/" + bad)
		if res.Exit == 0 {
			r.Violation("C20/cli-invalid-accepted/"+bad, "thriftgo -g go:"+bad+" exits 0", nil)
		} else if res.Crash != "" || src != "" {
			r.Violation("C20/cli-invalid-not-clean/"+bad, fmt.Sprintf("crash=%q wrote-output=%v", res.Crash, src != ""), nil)
		}
	}
	// import-path options: measured at the binary, alone and surrounded by other options
	wrap := [][2]string{{"", ""}, {"gen_setter,", ""}, {"", ",gen_db_tag"}, {"naming_style=golint,", ",keep_unknown_fields"}, {"package_prefix=example.com/pre,", ""}}
	for _, w := range wrap {
		// thrift_import_path
		res, src, _ := run(w[0] + "thrift_import_path=example.com/mythrift" + w[1])
		r.Eval(1)
		r.Sig("cli-import/thrift_import_path/" + w[0] + w[1])
		imps := importsOf(src)
		if res.Exit != 0 {
			r.Violation("C20/cli-documented-option-fails/thrift_import_path", vlib.Trunc(res.Stderr, 300), nil)
		} else {
			if !hasImport(imps, "example.com/mythrift") || hasImport(imps, "github.com/apache/thrift/lib/go/thrift") {
				r.Violation("C20/thrift_import_path-not-applied", fmt.Sprintf("imports: %v", imps), nil)
			}
			c20ImportDelta(r, "thrift_import_path", baseImports, imps, "github.com/apache/thrift/lib/go/thrift", "example.com/mythrift", w[0]+w[1])
		}
		res, src, _ = run(w[0] + "use_package=database/sql/driver=example.com/mydriver" + w[1])
		r.Eval(1)
		r.Sig("cli-import/use_package/" + w[0] + w[1])
		imps = importsOf(src)
		if res.Exit != 0 {
			r.Violation("C20/cli-documented-option-fails/use_package", vlib.Trunc(res.Stderr, 300), nil)
		} else {
			if !hasImport(imps, "example.com/mydriver") || hasImport(imps, "database/sql/driver") {
				r.Violation("C20/use_package-not-applied", fmt.Sprintf("imports: %v", imps), nil)
			}
			c20ImportDelta(r, "use_package", baseImports, imps, "database/sql/driver", "example.com/mydriver", w[0]+w[1])
		}
	}
	// package_prefix shows in the import path of the included package only
	res, src, _ := run("package_prefix=example.com/pre")
	r.Eval(1)
	r.Sig("cli-import/package_prefix")
	if res.Exit != 0 || !hasImport(importsOf(src), "example.com/pre/c20/inc") {
		r.Violation("C20/package_prefix-not-applied", fmt.Sprintf("exit=%d imports: %v", res.Exit, importsOf(src)), nil)
	}
	r.Sample(map[string]interface{}{"cli_base_imports": baseImports})
}

func c20ImportDelta(r *vlib.Run, opt string, base, got []string, from, to, ctx string) {
	if strings.Contains(ctx, "package_prefix") || strings.Contains(ctx, "keep_unknown_fields") {
		return // other options in the list legitimately change imports as well
	}
	exp := map[string]bool{}
	for _, b := range base {
		if b == from {
			exp[to] = true
		} else {
			exp[b] = true
		}
	}
	gm := map[string]bool{}
	for _, g := range got {
		gm[g] = true
	}
	if !reflect.DeepEqual(exp, gm) {
		r.Violation("C20/"+opt+"-changes-other-imports", fmt.Sprintf("imports with %s: %v; without: %v", opt, got, base), nil)
	}
}
