package props

// C01 — Every accepted IDL yields Go code that compiles.
//
// The real thriftgo binary generates code for model programs under many option
// configurations into one scratch module; the monitors are go/parser on every written file,
// `go build ./...` of the whole module against the pinned runtime libraries, and the
// "Failed to format" warning of the post-processor.

import (
	"fmt"
	"os"
	"regexp"
	"sort"
	"strings"

	"verif/harness"
	"verif/idl"
	"verif/vlib"
)

// options that need inputs this sandbox cannot provide (see DESIGN.md C01)
var c01Excluded = map[string]bool{"code_ref": true, "code_ref_slim": true, "exp_code_ref": true, "keep_code_ref_name": true, "use_option": true,
	"skip_go_gen": true, "thrift_import_path": true, "use_package": true, "package_prefix": true, "thrift_streaming": false, "streamx": false}

var c01BoolOptions = []string{"json_enum_as_text", "enum_marshal", "enum_unmarshal", "gen_setter", "gen_db_tag", "omitempty_for_optional=false",
	"validate_set=false", "value_type_in_container", "scan_value_for_enum=false", "reorder_fields", "typed_enum_string", "keep_unknown_fields", "gen_deep_equal",
	"compatible_names", "reserve_comments", "nil_safe", "frugal_tag", "unescape_double_quote=false", "gen_type_meta", "gen_json_tag=false", "always_gen_json_tag",
	"snake_style_json_tag", "lower_camel_style_json_tag", "with_reflection", "enum_as_int_32", "trim_idl", "json_stringer", "thrift_streaming", "no_default_serdes",
	"no_alias_type_reflection_method", "enable_ref_interface", "no_fmt", "skip_empty", "no_processor", "get_enum_annotation", "apache_warning", "apache_adaptor",
	"ignore_initialisms", "naming_style=golint", "naming_style=apache", "template=slim", "template=raw_struct"}

var c01Combos = [][]string{
	{"with_reflection", "with_field_mask"},
	{"with_reflection", "with_field_mask", "field_mask_halfway"},
	{"with_reflection", "with_field_mask", "field_mask_zero_required"},
	{"gen_deep_equal", "keep_unknown_fields"},
	{"no_default_serdes", "no_processor"},
	{"thrift_streaming", "streamx"},
	{"template=slim", "enable_nested_struct"},
	{"template=slim", "gen_deep_equal"},
	{"naming_style=golint", "ignore_initialisms", "gen_setter", "gen_deep_equal"},
	{"with_reflection", "no_alias_type_reflection_method", "gen_type_meta"},
	{"gen_setter", "nil_safe", "value_type_in_container", "enum_as_int_32", "reorder_fields"},
	{"keep_unknown_fields", "with_reflection", "with_field_mask", "gen_deep_equal", "gen_setter"},
	{"apache_adaptor", "json_stringer"},
	{"apache_adaptor", "keep_unknown_fields"},
	{"json_stringer", "enum_as_int_32"},
	{"compatible_names", "naming_style=apache"},
	{"validate_set=false", "value_type_in_container", "gen_setter"},
	{"frugal_tag", "gen_db_tag", "snake_style_json_tag", "always_gen_json_tag"},
}

func c01ValidCombo(opts []string) bool {
	has := func(o string) bool {
		for _, x := range opts {
			if x == o {
				return true
			}
		}
		return false
	}
	if has("apache_warning") && has("apache_adaptor") {
		return false
	}
	if has("snake_style_json_tag") && has("lower_camel_style_json_tag") {
		return false
	}
	if has("gen_json_tag=false") && (has("always_gen_json_tag") || has("snake_style_json_tag") || has("lower_camel_style_json_tag")) {
		return false
	}
	if has("template=slim") && has("template=raw_struct") {
		return false
	}
	if has("gen_deep_equal") && has("value_type_in_container") {
		return false // known finding (exemplar deep-equal-with-value-type-in-container)
	}
	if has("naming_style=golint") && has("naming_style=apache") {
		return false
	}
	return true
}

// c01Exemplars are hand-written IDLs, one per known finding of C01 (see known_findings.jsonl):
// shapes the random generator deliberately avoids so that they cannot mask other diagnostics.
var c01Exemplars = []struct {
	name    string
	backend string
	opts    []string
	texts   map[string]string
}{
	// regression exemplars of repaired defects (status "fixed": a diagnostic here is a violation again)
	{"fixed-constant-type-is-the-only-use-of-an-include", "go", nil, map[string]string{
		"main.thrift":   "include \"shared.thrift\"\nnamespace go kf.onlyconst\nconst shared.Name EMPTY = \"x\"\n",
		"shared.thrift": "namespace go kf.onlyconst.shared\ntypedef string Name\n"}},
	{"fixed-binary-constant-type-is-the-only-use-of-an-include", "go", nil, map[string]string{
		"main.thrift":   "include \"shared.thrift\"\nnamespace go kf.onlybin\nconst shared.Raw R = \"bytes\"\n",
		"shared.thrift": "namespace go kf.onlybin.shared\ntypedef binary Raw\n"}},
	{"fixed-struct-literal-field-type-of-a-third-file", "fastgo", nil, map[string]string{
		"main.thrift":   "include \"base.thrift\"\nnamespace go kf.third.mainpkg\nconst base.User U = {\"id\": 3}\nstruct S { 1: base.User u = {\"id\": 4} }\n",
		"base.thrift":   "include \"shared.thrift\"\nnamespace go kf.third.base\nstruct User { 1: shared.Name id, 2: optional shared.Name alt }\n",
		"shared.thrift": "namespace go kf.third.shared\ntypedef i32 Name\n"}},
	{"fixed-escaped-double-quote-in-single-quoted-literal", "go", nil, map[string]string{
		"main.thrift": "namespace go kf.quotes\nconst string A = 'a\\\"b'\nconst string B = \"c\\\\\\\"d\"\nstruct S { 1: string f = 'say \\\"hi\\\"' }\n"}},
	{"fastgo-two-files-one-package", "fastgo", nil, map[string]string{
		"main.thrift":  "include \"other.thrift\"\nnamespace go kf.samepkg\nstruct A { 1: other.B b }\n",
		"other.thrift": "namespace go kf.samepkg\nstruct B { 1: i32 x }\n"}},
	{"use_type_alias_false-typedef-scalar", "go", []string{"use_type_alias=false"}, map[string]string{
		"main.thrift": "namespace go kf.alias\ntypedef i16 Small\nstruct S { 1: optional Small a, 2: Small b, 3: list<Small> c }\n"}},
	{"two-throws-of-one-exception-type", "go", nil, map[string]string{
		"main.thrift": "namespace go kf.throws\nexception E { 1: string m }\nservice S { void f() throws (1: E a, 2: E b) }\n"}},
	{"deep-equal-with-value-type-in-container", "go", []string{"gen_deep_equal", "value_type_in_container"}, map[string]string{
		"main.thrift": "namespace go kf.dvt\nstruct P { 1: i32 x, 2: list<P> kids, 3: set<P> s }\n"}},
	{"fastgo-with-slim-template", "fastgo", []string{"template=slim"}, map[string]string{
		"main.thrift": "namespace go kf.fslim\nstruct P { 1: i32 x }\nservice S { P f(1: P p) }\n"}},
	{"fastgo-with-raw_struct-template", "fastgo", []string{"template=raw_struct"}, map[string]string{
		"main.thrift": "namespace go kf.fraw\nstruct P { 1: i32 x }\nservice S { P f(1: P p) }\n"}},
	{"fastgo-with-value_type_in_container", "fastgo", []string{"value_type_in_container"}, map[string]string{
		"main.thrift": "namespace go kf.fvt\nstruct P { 1: i32 x }\nstruct Q { 1: list<P> l, 2: map<string, P> m }\n"}},
	{"raw_struct-default-naming-third-package", "go", []string{"template=raw_struct"}, map[string]string{
		"main.thrift": "include \"b.thrift\"\nnamespace go kf.raw3.a\nstruct S { 1: b.H h = {\"uuid\": []} }\n",
		"b.thrift":    "include \"c.thrift\"\nnamespace go kf.raw3.b\nstruct H { 1: list<c.Info> uuid }\n",
		"c.thrift":    "namespace go kf.raw3.c\nstruct Info { 1: i32 v }\n"}},
	{"raw_struct-include-used-only-by-service", "go", []string{"template=raw_struct"}, map[string]string{
		"main.thrift": "include \"c.thrift\"\nnamespace go kf.raws.a\nstruct S { 1: i32 x }\nservice Api { void f(1: c.Mode m) }\n",
		"c.thrift":    "namespace go kf.raws.c\nenum Mode { A }\n"}},
	{"throws-field-named-success", "go", nil, map[string]string{
		"main.thrift": "namespace go kf.succ\nexception E { 1: string m }\nservice S { i32 f() throws (1: E success) }\n"}},
	{"underscore-field-in-foreign-struct-literal", "go", nil, map[string]string{
		"main.thrift":  "include \"other.thrift\"\nnamespace go kf.under.mainpkg\nconst other.B X = {\"_x\": 1}\n",
		"other.thrift": "namespace go kf.under.other\nstruct B { 1: i32 _x }\n"}},
}

// c01ProgFor draws a program that avoids the shapes recorded as known findings for this configuration.
func c01ProgFor(rng *vlib.Rng, backend string, opts []string, stress int) *idl.Program {
	o := c01Opts(rng, stress)
	if backend == "fastgo" {
		o.SameNS = false // two IDL files in one package do not compile with fastgo
	}
	for _, x := range opts {
		if x == "template=raw_struct" {
			o.Defaults = false // a struct-literal default naming a type of a third package leaves an unused import
			o.Services = false // so does an include that only a service refers to (raw_struct renders no service code)
		}
	}
	return idl.Generate(rng.Fork("prog"), o)
}

func c01Opts(rng *vlib.Rng, stress int) idl.GenOpts {
	o := idl.DefaultOpts()
	o.Files = rng.Range(1, 3)
	o.Structs = rng.Range(2, 4)
	o.FieldsMax = 8
	o.NameStress = stress
	o.Annotations = 1
	o.UnionDefault = true
	o.HexIDs = true
	o.ExpDoubles = true
	o.SameNS = true
	o.Sparse = true
	return o
}

var c01DiagKind = []struct {
	k  string
	re *regexp.Regexp
}{
	{"redeclared", regexp.MustCompile(`redeclared|already declared|duplicate (method|field|case)`)},
	{"undefined", regexp.MustCompile(`undefined: `)},
	{"unused-import", regexp.MustCompile(`imported and not used`)},
	{"unused-variable", regexp.MustCompile(`declared and not used`)},
	{"missing-import", regexp.MustCompile(`could not import|no required module provides|is not in std`)},
	{"type-mismatch", regexp.MustCompile(`cannot use|mismatched types|cannot convert|invalid operation|does not implement|missing method`)},
	{"syntax", regexp.MustCompile(`syntax error|expected `)},
	{"unknown-field", regexp.MustCompile(`unknown field|has no field or method`)},
	{"import-cycle", regexp.MustCompile(`import cycle`)},
}

func c01Kind(msg string) string {
	for _, d := range c01DiagKind {
		if d.re.MatchString(msg) {
			return d.k
		}
	}
	return "other"
}

func optKey(opts []string) string {
	if len(opts) == 0 {
		return "default"
	}
	return strings.Join(opts, ",")
}

func C01(r *vlib.Run) {
	r.Rule = "one case = one (model program, backend, option list, -r on/off) generated by the real thriftgo binary; evaluations = units whose every written .go file was parsed and whose packages were type-checked by `go build`; distinct = distinct (configuration) and (definition/type-shape) signatures among compiled units"
	r.Assume("supported configuration excludes code_ref*, use_option with option IDLs, streaming-annotated methods, thrift_import_path/use_package to unknown paths (DESIGN.md C01)")
	s, err := harness.NewScratch("c01")
	if err != nil {
		vlib.Fatal("C01", "scratch: %v", err)
	}
	defer s.Close()
	rng := vlib.NewRng(r.Seed, "c01")
	var units []*harness.Unit
	n := 0
	add := func(p *idl.Program, backend string, opts []string, recurse bool) {
		for _, o := range opts {
			if o == "trim_idl" || strings.HasPrefix(o, "trim_idl=") {
				// trimming is relative to the file given on the command line: the packages of separate
				// non-recursive runs do not fit together by design
				recurse = true
			}
		}
		n++
		units = append(units, &harness.Unit{Name: fmt.Sprintf("u%04d", n), Prog: p, Backend: backend, Opts: opts, Recurse: recurse})
	}
	// kitchen-sink corpus (seed independent) under default, fastgo and the documented combos
	for i, p := range idl.KitchenSinks() {
		add(p, "go", nil, true)
		if !idl.SharesPackage(p) {
			add(p, "fastgo", nil, true)
		}
		add(p, "go", c01Combos[i%len(c01Combos)], true)
		add(p, "go", []string{"template=slim"}, true)
	}
	// every single option on 3 programs (one of them the kitchen sink)
	ks := idl.KitchenSinks()
	for i, o := range c01BoolOptions {
		add(ks[i%len(ks)], "go", []string{o}, true)
		for k := 0; k < r.N(2, 6); k++ {
			add(c01ProgFor(rng, "go", []string{o}, 1), "go", []string{o}, rng.Bool())
		}
	}
	for _, c := range c01Combos {
		for k := 0; k < 3; k++ {
			add(c01ProgFor(rng, "go", c, 1), "go", c, true)
		}
		if r.Thorough() {
			for k := 0; k < 4; k++ {
				add(c01ProgFor(rng, "go", c, 2), "go", c, rng.Bool())
			}
		}
	}
	for _, ex := range c01Exemplars {
		n++
		units = append(units, &harness.Unit{Name: fmt.Sprintf("u%04dx", n), Backend: ex.backend, Opts: ex.opts, Recurse: true, Texts: ex.texts, Tag: ex.name})
	}
	// random programs x {default, fastgo, random option lists}
	np := r.N(50, 500)
	for i := 0; i < np; i++ {
		p := idl.Generate(rng.Fork("p"), c01Opts(rng, i%3))
		add(p, "go", nil, i%2 == 0)
		if i%3 == 0 {
			add(c01ProgFor(rng, "fastgo", nil, i%3), "fastgo", nil, true)
		}
		var opts []string
		for tries := 0; tries < 10; tries++ {
			opts = nil
			k := rng.Range(2, 6)
			for _, j := range rng.Perm(len(c01BoolOptions))[:k] {
				opts = append(opts, c01BoolOptions[j])
			}
			if c01ValidCombo(opts) {
				break
			}
			opts = nil
		}
		if opts != nil {
			if i%7 == 0 {
				var fopts []string
				for _, o := range opts {
					if !strings.HasPrefix(o, "template=") && o != "no_default_serdes" && o != "value_type_in_container" { // known findings: fastgo needs the default templates and pointer elements
						fopts = append(fopts, o)
					}
				}
				add(c01ProgFor(rng, "fastgo", fopts, i%3), "fastgo", fopts, true)
			} else {
				add(c01ProgFor(rng, "go", opts, i%3), "go", opts, true)
			}
		}
	}
	s.ParallelGenerate(units)
	accepted := 0
	for _, u := range s.Units {
		if u.GenRes.Exit != 0 || u.GenRes.TimedOut {
			r.Count("thriftgo_rejected_or_failed", 1)
			r.Sig("rejected/" + vlib.Trunc(vlib.FirstLine(u.GenRes.Stderr+u.GenRes.Stdout), 60))
			if u.GenRes.Crash != "" {
				r.Count("thriftgo_crashed", 1)
				if os.Getenv("VERIF_DEBUG") != "" {
					fmt.Printf("CRASHED %s:%s\n%s\n", u.Backend, optKey(u.Opts), crashSite(u.GenRes.Stdout+u.GenRes.Stderr))
				}
			} else if os.Getenv("VERIF_DEBUG") != "" {
				fmt.Printf("REJECTED %s:%s %s\n", u.Backend, optKey(u.Opts), vlib.Trunc(lastLine(u.GenRes.Stderr+u.GenRes.Stdout), 300))
			}
			// not compiled: remove so that go build ignores partial output
			os.RemoveAll(u.Dir)
			continue
		}
		accepted++
		u.Scan()
	}
	out, berr := s.Build()
	if berr != nil {
		attributed := 0
		for _, u := range s.Units {
			attributed += len(u.BuildErr) + len(u.DrvErr)
		}
		if attributed == 0 {
			vlib.Fatal("C01", "go build failed but no diagnostic could be attributed to a unit: %s", vlib.Trunc(out, 1500))
		}
	}
	if strings.Contains(out, "cannot find module") || strings.Contains(out, "dial tcp") {
		vlib.Fatal("C01", "go build cannot resolve modules offline: %s", vlib.Trunc(out, 600))
	}
	for _, u := range s.Units {
		if u.GenRes.Exit != 0 || u.GenRes.TimedOut {
			continue
		}
		r.Eval(1)
		cfg := u.Backend + ":" + optKey(u.Opts)
		if u.Tag != "" {
			// known-finding exemplar: every diagnostic is keyed by the exemplar and its kind
			if all := append(append([]string{}, u.SyntaxEr...), u.BuildErr...); len(all) > 0 {
				r.Violation("C01/exemplar/"+u.Tag+"/"+c01Kind(all[0]), fmt.Sprintf("config %s: %s", cfg, strings.Join(all, " | ")), vlib.Replay(u.Texts))
			}
			r.Sig("exemplar/" + u.Tag)
			continue
		}
		r.Sig("cfg/" + cfg)
		c01ProgSigs(r, u.Prog)
		replay := vlib.Replay{}
		for k, v := range u.Texts {
			replay["idl/"+k] = v
		}
		replay["cmdline.txt"] = fmt.Sprintf("thriftgo -g %s:%s %v main.thrift\n", u.Backend, strings.Join(u.Opts, ","), map[bool]string{true: "-r", false: ""}[u.Recurse])
		if strings.Contains(u.GenRes.Stderr+u.GenRes.Stdout, "Failed to format") {
			r.Violation("C01/unformattable-output", fmt.Sprintf("config %s: thriftgo exits 0 but reports: %s", cfg, vlib.Trunc(u.GenRes.Stderr, 600)), replay)
		}
		for _, e := range u.SyntaxEr {
			r.Violation("C01/syntax-error-in-written-file", fmt.Sprintf("config %s: %s", cfg, e), replay)
		}
		if os.Getenv("VERIF_DEBUG") != "" {
			for _, e := range u.BuildErr {
				fmt.Printf("DIAG %s %s | %s\n", u.Name, cfg, e)
			}
		}
		seen := map[string]bool{}
		for _, e := range u.BuildErr {
			k := c01Kind(e)
			if seen[k] {
				continue
			}
			seen[k] = true
			r.Violation("C01/compile/"+k, fmt.Sprintf("config %s: %s\n(all diagnostics of this unit: %s)", cfg, e, vlib.Trunc(strings.Join(u.BuildErr, " | "), 1500)), replay)
		}
		if len(u.GoFiles) == 0 {
			r.Violation("C01/exit0-without-output", "config "+cfg+": thriftgo exited 0 and wrote no .go file", replay)
		}
		if n%40 == 0 {
			r.Sample(map[string]interface{}{"config": cfg, "files": u.GoFiles})
		}
	}
	if accepted > 0 {
		r.Sample(map[string]interface{}{"units_generated": accepted, "units_total": len(s.Units)})
	}
	if accepted*2 < len(s.Units) {
		vlib.Fatal("C01", "thriftgo rejected %d of %d well-formed units — the generator or the binary is broken; first stderr: %s", len(s.Units)-accepted, len(s.Units), firstRejected(s))
	}
}

func firstRejected(s *harness.Scratch) string {
	for _, u := range s.Units {
		if u.GenRes.Exit != 0 {
			return vlib.Trunc(u.GenRes.Stderr+u.GenRes.Stdout, 500)
		}
	}
	return ""
}

func c01ProgSigs(r *vlib.Run, p *idl.Program) {
	kinds := map[string]bool{}
	for _, f := range p.Files {
		has := map[idl.DefKind]bool{}
		for _, d := range f.Defs {
			has[d.Kind] = true
		}
		kinds[fmt.Sprintf("file/enum=%v/const=%v/service=%v/typedef=%v", has[idl.KEnum], has[idl.KConst], has[idl.KService], has[idl.KTypedef])] = true
		for _, d := range f.Defs {
			kinds[d.Kind.String()] = true
			for _, fl := range d.Fields {
				kinds["field/"+fl.Type.Shape(1)+"/"+fl.Req.String()] = true
			}
			if d.Extends != nil {
				kinds[fmt.Sprintf("extends/foreign=%v/same-go-package=%v", d.Extends.File != f, d.Extends.File != f && d.Extends.File.GoNamespace() == f.GoNamespace())] = true
			}
		}
	}
	var ks []string
	for k := range kinds {
		ks = append(ks, k)
	}
	sort.Strings(ks)
	for _, k := range ks {
		r.Sig("shape/" + k)
	}
}

func lastLine(s string) string {
	ls := strings.Split(strings.TrimSpace(s), "\n")
	for i := len(ls) - 1; i >= 0; i-- {
		if !strings.Contains(ls[i], "[WARN]") {
			return ls[i]
		}
	}
	return ""
}

// crashSite extracts the panic message and the first thriftgo frames of a trace.
func crashSite(s string) string {
	ls := strings.Split(s, "\n")
	var out []string
	for i, l := range ls {
		if strings.Contains(l, "Recovered from panic") && i+1 < len(ls) {
			out = append(out, "  panic: "+ls[i+1])
		}
		if strings.HasPrefix(l, "panic: ") || strings.HasPrefix(l, "fatal error: ") {
			out = append(out, "  "+l)
		}
	}
	n := 0
	for _, l := range ls {
		if strings.HasPrefix(l, "github.com/cloudwego/thriftgo/") && !strings.Contains(l, "handlePanic") {
			out = append(out, "  at "+l)
			n++
			if n >= 3 {
				break
			}
		}
	}
	return strings.Join(out, "\n")
}
