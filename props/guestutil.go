package props

import (
	"encoding/hex"
	"fmt"
	"regexp"
	"sort"
	"strings"

	"verif/harness"
	"verif/idl"
	"verif/refcodec"
	"verif/vlib"
)

// typeMap pairs model struct-likes (also synthesized args/result types) with guest type keys.
type typeMap struct {
	key   map[*idl.Def]string
	all   map[*idl.Def][]string // every generated type that writes this struct (aliases / typedef'd constructors too)
	keys  map[string]bool       // every registered type key
	defs  []*idl.Def            // in deterministic order
	synth map[*idl.Def]bool
	notes []string
}

// synthDefs builds the args/result struct definitions of every service function.
func synthDefs(p *idl.Program) []*idl.Def {
	var out []*idl.Def
	for _, f := range p.Files {
		for _, s := range f.DefsOf(idl.KService) {
			for _, fn := range s.Funcs {
				args := &idl.Def{Kind: idl.KStruct, Name: fn.Name + "_args", File: f}
				for _, a := range fn.Args {
					c := *a
					if c.Req == idl.ReqOptional {
						c.Req = idl.ReqDefault // arguments are not optional after analysis
					}
					args.Fields = append(args.Fields, &c)
				}
				out = append(out, args)
				if fn.Oneway {
					continue
				}
				res := &idl.Def{Kind: idl.KStruct, Name: fn.Name + "_result", File: f}
				if !fn.Void {
					res.Fields = append(res.Fields, &idl.Field{ID: 0, ExplicitID: true, Req: idl.ReqOptional, Type: fn.Ret, Name: "success"})
				}
				for _, t := range fn.Throws {
					c := *t
					c.Req = idl.ReqOptional
					res.Fields = append(res.Fields, &c)
				}
				out = append(out, res)
			}
		}
	}
	return out
}

func pkgDir(f *idl.File) string { return strings.ReplaceAll(f.GoNamespace(), ".", "/") }

// describe asks the guest which types exist and which IDL names they write.
func describe(u *harness.Unit) (*typeMap, error) {
	res, fatal, _, stderr := u.RunGuest("describe", []map[string]interface{}{{"op": "describe"}})
	if fatal != "" {
		return nil, fmt.Errorf("guest died during describe: %s %s", fatal, vlib.Trunc(stderr, 500))
	}
	r := res[0]
	if r == nil {
		return nil, fmt.Errorf("no describe result")
	}
	type ent struct {
		key, idlName string
		tags         map[string]bool
	}
	var ents []ent
	tl, _ := r["types"].([]interface{})
	for _, x := range tl {
		m, _ := x.(map[string]interface{})
		e := ent{tags: map[string]bool{}}
		e.key, _ = m["key"].(string)
		e.idlName, _ = m["idl"].(string)
		fs, _ := m["fields"].([]interface{})
		for _, f := range fs {
			fm, _ := f.(map[string]interface{})
			e.tags[fmt.Sprintf("%v:%v", fm["id"], fm["name"])] = true
		}
		ents = append(ents, e)
	}
	sort.Slice(ents, func(i, j int) bool { return ents[i].key < ents[j].key })
	tm := &typeMap{key: map[*idl.Def]string{}, all: map[*idl.Def][]string{}, synth: map[*idl.Def]bool{}, keys: map[string]bool{}}
	for _, e := range ents {
		tm.keys[e.key] = true
	}
	match := func(d *idl.Def, synth bool) {
		dir := pkgDir(d.File)
		want := map[string]bool{}
		for _, f := range d.Fields {
			want[fmt.Sprintf("%d:%s", f.ID, f.Name)] = true
		}
		var cands []ent
		for _, e := range ents {
			if !strings.HasPrefix(e.key, dir+".") || strings.Contains(e.key[len(dir)+1:], ".") || e.idlName != d.Name {
				continue
			}
			same := len(e.tags) == len(want)
			for t := range want {
				if !e.tags[t] {
					same = false
				}
			}
			if same {
				cands = append(cands, e)
			}
		}
		if len(cands) == 0 {
			tm.notes = append(tm.notes, fmt.Sprintf("no generated type writes struct name %q with the model's fields in package %s", d.Name, dir))
			return
		}
		if synth && len(cands) > 1 {
			// two services of one package with a function of the same name and shape: indistinguishable here
			first := cands[0].key
			for _, c := range cands[1:] {
				if c.key != first {
					tm.notes = append(tm.notes, "ambiguous synthesized type "+d.Name)
					return
				}
			}
		}
		tm.key[d] = cands[0].key
		for _, c := range cands {
			tm.all[d] = append(tm.all[d], c.key)
		}
		tm.defs = append(tm.defs, d)
		tm.synth[d] = synth
	}
	for _, d := range u.Prog.AllStructLikes() {
		match(d, false)
	}
	for _, d := range synthDefs(u.Prog) {
		match(d, true)
	}
	return tm, nil
}

// refEncode is the reference encoding of the fields present in v.
func refEncode(d *idl.Def, v *idl.Val) ([]byte, []refcodec.FieldMark) {
	b, marks, err := refcodec.EncodeStruct(d, v)
	if err != nil {
		panic(err)
	}
	return b, marks
}

func hexOf(b []byte) string { return hex.EncodeToString(b) }

func unhex(s interface{}) []byte {
	str, _ := s.(string)
	b, _ := hex.DecodeString(str)
	return b
}

func strOf(x interface{}) string {
	if x == nil {
		return ""
	}
	return fmt.Sprint(x)
}

// guestProblem classifies harness-level trouble in a result (not a verdict on thriftgo).
func guestProblem(r harness.GuestResult) string {
	if r == nil {
		return "no result"
	}
	if h := strOf(r["harness"]); h != "" {
		return h
	}
	return ""
}

// buildUnits generates, scans, writes drivers and builds; returns the units that produced a runnable guest.
func buildUnits(r *vlib.Run, prop string, s *harness.Scratch, units []*harness.Unit) []*harness.Unit {
	s.ParallelGenerate(units)
	for _, u := range s.Units {
		if u.GenRes.Exit != 0 || u.GenRes.TimedOut {
			r.Count("units_rejected_by_thriftgo", 1)
			fmt.Printf("NOTE property=%s thriftgo rejected unit %s (%s:%s): %s\n", prop, u.Name, u.Backend, strings.Join(u.Opts, ","), vlib.Trunc(lastLine(u.GenRes.Stderr+u.GenRes.Stdout), 200))
			continue
		}
		u.Scan()
		if u.WantServices {
			u.Services = u.AddServiceDriver()
		}
		if u.WantRefl {
			u.Refl = u.AddReflectionDriver()
		}
		if err := u.WriteDriver(); err != nil {
			vlib.Fatal(prop, "driver: %v", err)
		}
	}
	// rejected units must not break the build of the others
	for _, u := range s.Units {
		if u.GenRes.Exit != 0 || u.GenRes.TimedOut {
			harness.SetAside(s, u)
		}
	}
	out, _ := s.Build()
	var ok []*harness.Unit
	for _, u := range s.Units {
		if u.GenRes.Exit != 0 || u.GenRes.TimedOut {
			continue
		}
		if u.Bin == "" {
			r.Count("units_not_compiled", 1)
			fmt.Printf("NOTE property=%s unit %s (%s:%s) has no guest binary: %s\n", prop, u.Name, u.Backend, strings.Join(u.Opts, ","), vlib.Trunc(strings.Join(append(u.BuildErr, u.DrvErr...), " | "), 400))
			if len(u.BuildErr) > 0 {
				// thriftgo accepted the program and wrote code that does not compile: nothing of this
				// property can hold for it
				rp := vlib.Replay{"options.txt": u.Backend + ":" + strings.Join(u.Opts, ",") + "\n"}
				for k, v := range u.Texts {
					rp["idl/"+k] = v
				}
				r.Eval(1)
				r.Violation(prop+"/generated-code-does-not-compile/"+c01Kind(u.BuildErr[0])+unusedImportClass(u, u.BuildErr[0]), fmt.Sprintf("config [%s:%s]: %s", u.Backend, strings.Join(u.Opts, ","), vlib.Trunc(strings.Join(u.BuildErr, " | "), 1200)), rp)
			}
			continue
		}
		ok = append(ok, u)
	}
	if len(ok) == 0 {
		vlib.Fatal(prop, "no unit could be built; go build said: %s", vlib.Trunc(out, 1500))
	}
	return ok
}

var unusedImportRe = regexp.MustCompile(`^gen/(.*)/([^/]+)\.go:\d+: "scratch/[^/]+/gen/([^"]+)" imported and not used`)

// unusedImportClass refines the finding key of an "imported and not used" diagnostic: is the unused package
// generated from a file the IDL file includes itself, or from one it only reaches through another include?
func unusedImportClass(u *harness.Unit, msg string) string {
	m := unusedImportRe.FindStringSubmatch(msg)
	if m == nil || u.Prog == nil {
		return ""
	}
	var from *idl.File
	for _, f := range u.Prog.Files {
		if pkgDir(f) == m[1] && f.Prefix() == m[2] {
			from = f
		}
	}
	if from == nil {
		return ""
	}
	for _, g := range u.Prog.Files {
		if pkgDir(g) == m[3] && from.IncludeIndex(g) >= 0 {
			return "/of-a-directly-included-file"
		}
	}
	return "/of-an-indirectly-included-file"
}
