package props

// C14 — Field-mask library: queries and JSON transport agree with path semantics.
// Runs in a -race build of vf (the check script builds C14 with -race).

import (
	"fmt"
	"os"
	"path/filepath"
	"strconv"
	"strings"
	"sync"

	"github.com/cloudwego/thriftgo/fieldmask"
	"github.com/cloudwego/thriftgo/parser"
	"github.com/cloudwego/thriftgo/thrift_reflection"

	"verif/fmref"
	"verif/harness"
	"verif/idl"
	"verif/vlib"
)

func c14Opts(rng *vlib.Rng) idl.GenOpts {
	o := idl.DefaultOpts()
	o.Files = 1
	o.Structs = rng.Range(3, 6)
	o.FieldsMax = 8
	o.NameStress = 0
	o.Annotations = 0
	o.Services = false
	o.Consts = false
	o.Defaults = false
	o.UnionDefault = false
	o.MaxDepth = 3
	return o
}

func descOf(fd *thrift_reflection.FileDescriptor, name string) *thrift_reflection.TypeDescriptor {
	st := fd.GetStructDescriptor(name)
	if st == nil {
		return nil
	}
	return &thrift_reflection.TypeDescriptor{Filepath: st.Filepath, Name: st.Name,
		Extra: map[string]string{thrift_reflection.GLOBAL_UUID_EXTRA_KEY: st.Extra[thrift_reflection.GLOBAL_UUID_EXTRA_KEY]}}
}

// safely runs f and returns the panic message if any.
func safely(f func()) (pn string) {
	defer func() {
		if e := recover(); e != nil {
			pn = fmt.Sprint(e)
		}
	}()
	f()
	return ""
}

// c14Walk compares the library's answers with the reference trie on every field / index / key of
// the type down to `depth`.  It returns a description of the first disagreement.
func c14Walk(fm *fieldmask.FieldMask, n *fmref.Node, black bool, t *idl.Type, depth int, path string, nq *int) string {
	r := t.Resolve()
	if depth <= 0 {
		return ""
	}
	check := func(kind, key string, sub *fieldmask.FieldMask, ex bool, rsub *fmref.Node, rex bool, ct *idl.Type) string {
		*nq++
		if ex != rex {
			return fmt.Sprintf("%s %s(%s): library says selected=%v, the path set prescribes %v", path, kind, key, ex, rex)
		}
		if !ex {
			return ""
		}
		return c14Walk(sub, rsub, black, ct, depth-1, path+kind[:1]+key, nq)
	}
	switch idl.WireCat(r) {
	case "struct":
		if r.Ref.Kind != idl.KStruct {
			return ""
		}
		ids := []int32{32001}
		for _, f := range r.Ref.Fields {
			ids = append(ids, f.ID)
		}
		for _, id := range ids {
			var sub *fieldmask.FieldMask
			var ex bool
			if pn := safely(func() { sub, ex = fm.Field(int16(id)) }); pn != "" {
				return fmt.Sprintf("%s Field(%d) panicked: %s", path, id, pn)
			}
			rsub, rex := fmref.Query(n, black, strconv.Itoa(int(id)))
			f := r.Ref.FieldByID(id)
			if f == nil {
				*nq++
				if ex != rex {
					return fmt.Sprintf("%s Field(%d) [no such field]: library %v, reference %v", path, id, ex, rex)
				}
				continue
			}
			if d := check("Field", strconv.Itoa(int(id)), sub, ex, rsub, rex, f.Type); d != "" {
				return d
			}
		}
	case "list", "set":
		if unsupportedElemT(r.Elem) {
			return ""
		}
		for i := 0; i <= 4; i++ {
			var sub *fieldmask.FieldMask
			var ex bool
			if pn := safely(func() { sub, ex = fm.Int(i) }); pn != "" {
				return fmt.Sprintf("%s Int(%d) panicked: %s", path, i, pn)
			}
			rsub, rex := fmref.Query(n, black, strconv.Itoa(i))
			if d := check("Int", strconv.Itoa(i), sub, ex, rsub, rex, r.Elem); d != "" {
				return d
			}
		}
	case "map":
		if unsupportedElemT(r.Elem) {
			return ""
		}
		kc := idl.WireCat(r.Key)
		switch kc {
		case "i8", "i16", "i32", "i64", "enum":
			for _, k := range []int{0, 1, 2, 5, 13, 39, 40} {
				var sub *fieldmask.FieldMask
				var ex bool
				if pn := safely(func() { sub, ex = fm.Int(k) }); pn != "" {
					return fmt.Sprintf("%s Int(%d) panicked: %s", path, k, pn)
				}
				rsub, rex := fmref.Query(n, black, strconv.Itoa(k))
				if d := check("Int", strconv.Itoa(k), sub, ex, rsub, rex, r.Elem); d != "" {
					return d
				}
			}
		case "string", "binary":
			for _, k := range []string{"absent", "k1", "no such key", "", "other", "q\"uote", "back\\slash", "tab\there", "é", "q\\\"uote"} {
				var sub *fieldmask.FieldMask
				var ex bool
				if pn := safely(func() { sub, ex = fm.Str(k) }); pn != "" {
					return fmt.Sprintf("%s Str(%q) panicked: %s", path, k, pn)
				}
				rsub, rex := fmref.Query(n, black, "s"+k)
				if d := check("Str", k, sub, ex, rsub, rex, r.Elem); d != "" {
					return d
				}
			}
		}
	}
	return ""
}

func unsupportedElemT(t *idl.Type) bool {
	r := t.Resolve()
	return idl.WireCat(r) == "struct" && r.Ref.Kind != idl.KStruct
}

func C14(r *vlib.Run) {
	r.Rule = "one evaluation = one API call sequence on the real fieldmask package with a descriptor from thrift_reflection.RegisterAST: (a) NewFieldMask on a generated valid path set, then an exhaustive query walk (every field id incl. an absent one, indices 0..4, a key pool, to depth 4) compared with the reference trie, the same after shuffling and regrouping the paths, after MarshalJSON/UnmarshalJSON and through Marshal/Unmarshal, with JSON text equality; (b) NewFieldMask on a path made invalid in one catalogued way (must fail, never panic); (c) random / mutated path strings and JSON documents (must not panic); distinct = path-shape and mutation-kind signatures; a concurrent section exercises the caches under the race detector"
	r.Assume("order/grouping independence is asserted only for prefix-free path sets without '*' mixed with specific selectors (DESIGN C3.5)")
	dir := vlib.ScratchBase("vf-c14-")
	defer os.RemoveAll(dir)
	rng := vlib.NewRng(r.Seed, "c14")
	nprog := r.N(40, 600)
	perStruct := r.N(30, 60)
	type target struct {
		d    *idl.Def
		desc *thrift_reflection.TypeDescriptor
	}
	var keepMasks []*fieldmask.FieldMask
	var keepDescs []target
	for pi := 0; pi < nprog; pi++ {
		p := idl.Generate(rng.Fork("p"), c14Opts(rng))
		sub := filepath.Join(dir, fmt.Sprintf("p%d", pi))
		texts, err := harness.WriteProgram(sub, p, idl.PlainLayout())
		if err != nil {
			vlib.Fatal("C14", "write: %v", err)
		}
		ast, stage, err := harness.Frontend(filepath.Join(sub, "main.thrift"))
		if err != nil {
			r.Inconclusive(fmt.Sprintf("front end rejected a generated program at %s: %v", stage, err))
			continue
		}
		gd, fd := thrift_reflection.RegisterAST(ast)
		var targets []target
		for _, d := range p.Main().DefsOf(idl.KStruct) {
			if len(d.Fields) == 0 {
				continue
			}
			if desc := descOf(fd, d.Name); desc != nil {
				targets = append(targets, target{d, desc})
			}
		}
		for _, tg := range targets {
			for k := 0; k < perStruct; k++ {
				c14Valid(r, rng, tg.d, tg.desc, k%2 == 1, texts, &keepMasks)
			}
			c14Invalid(r, rng, tg.d, tg.desc, texts)
		}
		if pi < 3 {
			keepDescs = append(keepDescs, targets...)
		} else {
			thrift_reflection.ReleaseGlobalDescriptors(gd)
		}
		os.RemoveAll(sub)
	}
	c14Garbage(r, rng, keepDescs[0].desc)
	c14Concurrent(r, rng, keepMasks, dir)
	c14Races(r)
}

func c14Valid(r *vlib.Run, rng *vlib.Rng, d *idl.Def, desc *thrift_reflection.TypeDescriptor, black bool, texts map[string]string, keep *[]*fieldmask.FieldMask) {
	m := fmref.Gen(&fmref.GenOpts{Rng: rng.Fork("m"), MaxDepth: 4}, d, black)
	if len(m.Paths) == 0 {
		return
	}
	typ := &idl.Type{Name: d.Name, Ref: d}
	mode := map[bool]string{false: "white", true: "black"}[black]
	replay := vlib.Replay{"paths.txt": fmt.Sprintf("root=%s black=%v\n%s\n", d.Name, black, strings.Join(m.Paths, "\n"))}
	for k, v := range texts {
		replay["idl/"+k] = v
	}
	bad := func(key, f string, a ...interface{}) {
		r.Violation("C14/"+mode+"/"+key, fmt.Sprintf("root %s paths=%v: ", d.Name, m.Paths)+fmt.Sprintf(f, a...), replay)
	}
	build := func(paths []string) (*fieldmask.FieldMask, string) {
		var fm *fieldmask.FieldMask
		var err error
		if pn := safely(func() { fm, err = fieldmask.Options{BlackListMode: black}.NewFieldMask(desc, paths...) }); pn != "" {
			return nil, "panic: " + pn
		}
		if err != nil {
			return nil, err.Error()
		}
		return fm, ""
	}
	r.Eval(1)
	fm, e := build(m.Paths)
	if e != "" {
		k := "valid-paths-rejected"
		if strings.HasPrefix(e, "panic") {
			k = "newfieldmask-panic/" + panicKind(e)
		}
		bad(k, "NewFieldMask: %s", e)
		return
	}
	walk := func(which string, x *fieldmask.FieldMask) bool {
		nq := 0
		diff := c14Walk(x, m.Root, black, typ, 4, "$", &nq)
		r.Eval(nq)
		if diff == "" {
			return true
		}
		if black && fmref.HasTerminalStar(m.Root) {
			fmref.TerminalBlackStarPasses = true
			nq2 := 0
			alt := c14Walk(x, m.Root, black, typ, 4, "$", &nq2)
			fmref.TerminalBlackStarPasses = false
			if alt == "" {
				r.Violation("C14/black/path-ending-in-star-rejects-nothing", fmt.Sprintf("root %s paths=%v (%s): %s", d.Name, m.Paths, which, diff), replay)
				return true
			}
		}
		k := "query-disagrees"
		if strings.Contains(diff, "panicked") {
			k = "query-panic"
		}
		bad(which+"/"+k, "%s", diff)
		return false
	}
	if !walk("built", fm) {
		return
	}
	// PathInMask for every path of the set (white list: in the mask)
	if !black {
		for _, p := range m.Paths {
			var in bool
			if pn := safely(func() { in = fm.PathInMask(desc, p) }); pn != "" {
				bad("pathinmask-panic", "PathInMask(%q) panicked: %s", p, pn)
			} else if !in && !strings.Contains(p, ",") {
				bad("pathinmask-false", "PathInMask(%q) is false for a path of the set", p)
			}
			r.Eval(1)
		}
	}
	// order / grouping independence
	sh := append([]string{}, m.Paths...)
	for i, j := range rng.Perm(len(sh)) {
		sh[i], sh[j] = sh[j], sh[i]
	}
	regrouped := fmref.Render(rng.Fork("regroup"), m.Root, typ)
	var jsons []string
	for which, ps := range map[string][]string{"shuffled": sh, "regrouped": regrouped} {
		fm2, e := build(ps)
		r.Eval(1)
		if e != "" {
			bad(which+"/rejected", "the same path set %v is rejected: %s", ps, e)
			continue
		}
		walk(which, fm2)
		if j, err := fm2.MarshalJSON(); err == nil {
			jsons = append(jsons, string(j))
		}
	}
	// JSON transport
	var j1 []byte
	var err error
	if pn := safely(func() { j1, err = fm.MarshalJSON() }); pn != "" || err != nil {
		bad("marshaljson-fails", "MarshalJSON: %v %s", err, pn)
		return
	}
	s1 := string(j1) // private copy of the text
	for _, js := range jsons {
		if js != s1 {
			bad("json-not-stable", "the same path set marshals to different JSON depending on path order/grouping:\n %s\n %s", s1, js)
			break
		}
	}
	fm3 := &fieldmask.FieldMask{}
	if pn := safely(func() { err = fm3.UnmarshalJSON([]byte(s1)) }); pn != "" || err != nil {
		bad("unmarshaljson-fails", "UnmarshalJSON of its own output: %v %s\n%s", err, pn, s1)
		return
	}
	walk("json-roundtrip", fm3)
	if j3, err := fm3.MarshalJSON(); err != nil || string(j3) != s1 {
		bad("json-remarshal-differs", "re-marshalled JSON differs:\n %s\n %s", s1, string(j3))
	}
	// the byte slice returned earlier must still hold the same text after other marshals
	if other := *keep; len(other) > 0 {
		other[rng.Intn(len(other))].MarshalJSON()
		fm3.MarshalJSON()
	}
	if string(j1) != s1 {
		bad("marshaljson-result-overwritten", "the slice returned by MarshalJSON changed after later MarshalJSON calls:\n was %s\n now %s", s1, string(j1))
	}
	// package-level cached transport
	var bin []byte
	if pn := safely(func() { bin, err = fieldmask.Marshal(fm) }); pn != "" || err != nil {
		bad("marshal-fails", "Marshal: %v %s", err, pn)
		return
	}
	sbin := string(bin)
	var fm4 *fieldmask.FieldMask
	if pn := safely(func() { fm4, err = fieldmask.Unmarshal([]byte(sbin)) }); pn != "" || err != nil {
		bad("unmarshal-fails", "Unmarshal: %v %s", err, pn)
		return
	}
	walk("cached-unmarshal", fm4)
	if bin2, _ := fieldmask.Marshal(fm); string(bin2) != sbin || string(bin) != sbin {
		bad("cached-marshal-unstable", "Marshal of the same mask returns different bytes / its earlier result changed")
	}
	if len(*keep) < 64 {
		*keep = append(*keep, fm)
	}
	for _, p := range m.Paths {
		r.Sigf("%s/path-shape/%s", mode, pathShape(p))
	}
	if r.Counter("c14samples") < 5 {
		r.Count("c14samples", 1)
		r.Sample(map[string]interface{}{"root": d.Name, "black": black, "paths": m.Paths, "json": vlib.Trunc(s1, 300)})
	}
}

func pathShape(p string) string {
	shape := strings.Map(func(c rune) rune {
		switch {
		case c >= '0' && c <= '9':
			return 'n'
		case c >= 'a' && c <= 'z', c >= 'A' && c <= 'Z', c == '_', c == ' ':
			return 'a'
		}
		return c
	}, p)
	for _, rep := range [][2]string{{"nn", "n"}, {"aa", "a"}, {"an", "a"}, {"na", "a"}} {
		for strings.Contains(shape, rep[0]) {
			shape = strings.ReplaceAll(shape, rep[0], rep[1])
		}
	}
	return vlib.Trunc(shape, 40)
}

// c14Invalid: each path is invalid for exactly one catalogued reason; NewFieldMask must return an error.
func c14Invalid(r *vlib.Run, rng *vlib.Rng, d *idl.Def, desc *thrift_reflection.TypeDescriptor, texts map[string]string) {
	type bp struct {
		kind  string
		paths []string
	}
	var cases []bp
	add := func(kind string, paths ...string) { cases = append(cases, bp{kind, paths}) }
	name := func(f *idl.Field) string {
		if fmrefPathName(f.Name) {
			return f.Name
		}
		if f.ID >= 0 {
			return strconv.Itoa(int(f.ID))
		}
		return ""
	}
	add("unknown-field-name", "$.no_such_field_xyz")
	add("unknown-field-id", "$.32001")
	add("syntax/no-root", "field")
	add("syntax/empty-field", "$.")
	add("syntax/double-dot", "$..x")
	add("syntax/huge-field-id", "$.99999999999")
	add("syntax/enormous-field-id", "$.99999999999999999999999")
	for _, f := range d.Fields {
		n := name(f)
		if n == "" {
			continue
		}
		cat := idl.WireCat(f.Type)
		r2 := f.Type.Resolve()
		switch cat {
		case "list", "set":
			if unsupportedElemT(r2.Elem) {
				continue
			}
			add("key-syntax-on-list", "$."+n+"{\"a\"}")
			add("field-on-list", "$."+n+".x")
			add("syntax/unterminated-index", "$."+n+"[1")
			add("syntax/empty-index-set", "$."+n+"[]")
			add("syntax/non-integer-index", "$."+n+"[a]")
			add("syntax/huge-index", "$."+n+"[99999999999999999999999]")
			add("conflict/index-after-star", "$."+n+"[*]", "$."+n+"[1]")
		case "map":
			if unsupportedElemT(r2.Elem) {
				continue
			}
			kc := idl.WireCat(r2.Key)
			add("index-syntax-on-map", "$."+n+"[0]")
			add("syntax/unterminated-key", "$."+n+"{\"a")
			add("syntax/trailing-backslash", "$."+n+"{\"a\\")
			add("syntax/unterminated-map", "$."+n+"{1")
			add("syntax/empty-key-set", "$."+n+"{}")
			switch kc {
			case "i8", "i16", "i32", "i64", "enum":
				add("string-key-on-int-map", "$."+n+"{\"a\"}")
				add("conflict/key-after-star", "$."+n+"{*}", "$."+n+"{1}")
			case "string", "binary":
				add("int-key-on-string-map", "$."+n+"{1}")
				add("conflict/key-after-star", "$."+n+"{*}", "$."+n+"{\"a\"}")
			default:
				add("key-on-other-keyed-map", "$."+n+"{1}")
			}
		case "struct":
			if r2.Ref.Kind == idl.KStruct {
				add("unknown-nested-field", "$."+n+".no_such_field_xyz")
				add("index-on-struct", "$."+n+"[0]")
				if len(r2.Ref.Fields) > 0 {
					if n2 := name(r2.Ref.Fields[0]); n2 != "" {
						add("conflict/field-after-star", "$."+n+".*", "$."+n+"."+n2)
					}
				}
			}
		default:
			add("index-on-scalar", "$."+n+"[0]")
			add("key-on-scalar", "$."+n+"{\"a\"}")
			add("field-on-scalar", "$."+n+".x")
		}
	}
	for _, c := range cases {
		for _, black := range []bool{false, true} {
			var err error
			pn := safely(func() { _, err = fieldmask.Options{BlackListMode: black}.NewFieldMask(desc, c.paths...) })
			r.Eval(1)
			r.Sigf("invalid/%s", c.kind)
			replay := vlib.Replay{"paths.txt": fmt.Sprintf("root=%s black=%v\n%s\n", d.Name, black, strings.Join(c.paths, "\n"))}
			for k, v := range texts {
				replay["idl/"+k] = v
			}
			if pn != "" {
				r.Violation("C14/invalid-path/panic/"+c.kind, fmt.Sprintf("root %s: NewFieldMask(%q) panicked: %s", d.Name, c.paths, pn), replay)
			} else if err == nil {
				r.Violation("C14/invalid-path/accepted/"+c.kind, fmt.Sprintf("root %s: NewFieldMask(%q) returned no error", d.Name, c.paths), replay)
			}
		}
	}
}

func fmrefPathName(s string) bool {
	if s == "" {
		return false
	}
	for _, c := range []byte(s) {
		if !(c == '_' || (c >= '0' && c <= '9') || (c >= 'a' && c <= 'z') || (c >= 'A' && c <= 'Z')) {
			return false
		}
	}
	return true
}

// c14Garbage: arbitrary path strings and JSON documents must never panic.
func c14Garbage(r *vlib.Run, rng *vlib.Rng, desc *thrift_reflection.TypeDescriptor) {
	alphabet := []string{"$", ".", "[", "]", "{", "}", ",", "*", "\"", "\\", "a", "Foo", "1", "0", "-1", "99999999999999999999", " ", "\t", "\x00", "\xff", "é"}
	n := r.N(60000, 1200000)
	fmOK, _ := fieldmask.NewFieldMask(desc)
	for i := 0; i < n; i++ {
		var sb strings.Builder
		if i%2 == 0 {
			sb.WriteString("$")
		}
		k := rng.Range(0, 12)
		for j := 0; j < k; j++ {
			sb.WriteString(alphabet[rng.Intn(len(alphabet))])
		}
		p := sb.String()
		if pn := safely(func() { fieldmask.NewFieldMask(desc, p) }); pn != "" {
			r.Violation("C14/garbage-path/newfieldmask-panic/"+panicKind(pn), fmt.Sprintf("NewFieldMask(%q) panicked: %s", p, pn), vlib.Replay{"path.txt": p})
		}
		if pn := safely(func() { fmOK.PathInMask(desc, p); fmOK.GetPath(desc, p) }); pn != "" {
			r.Violation("C14/garbage-path/pathinmask-panic/"+panicKind(pn), fmt.Sprintf("PathInMask/GetPath(%q) panicked: %s", p, pn), vlib.Replay{"path.txt": p})
		}
		r.Eval(1)
	}
	r.Sig("garbage/path-strings")
	// JSON documents: mutated valid ones and structural garbage
	base := []string{`{"path":"$","type":"Struct","children":[{"path":1,"type":"Scalar"}]}`, `{"path":"$","type":"Struct","is_black":true,"children":[{"path":2,"type":"List","children":[{"path":"*","type":"Struct"}]}]}`,
		`{"path":"$","type":"StrMap","children":[{"path":"a","type":"Scalar"}]}`, `{"path":"$","type":"IntMap","children":[{"path":1,"type":"IntMap","children":[{"path":"*","type":"Scalar"}]}]}`}
	muts := []string{`"path"`, `"type"`, `"children"`, `"Struct"`, `"List"`, `"Scalar"`, `"StrMap"`, `"IntMap"`, `"*"`, `"$"`, "1", "-1", "null", "true", "[]", "{}", "[", "{", "]", "}", ":", ",", `"x"`, "1e99", `"\u0000"`}
	nj := r.N(40000, 600000)
	for i := 0; i < nj; i++ {
		doc := base[rng.Intn(len(base))]
		for m := rng.Range(0, 3); m > 0; m-- {
			a := rng.Intn(len(doc) + 1)
			b := a + rng.Intn(8)
			if b > len(doc) {
				b = len(doc)
			}
			doc = doc[:a] + muts[rng.Intn(len(muts))] + doc[b:]
		}
		if i%50 == 0 {
			doc = strings.Repeat(`{"path":"$","type":"Struct","children":[`, 200) + strings.Repeat(`]}`, 200)
		}
		if pn := safely(func() { (&fieldmask.FieldMask{}).UnmarshalJSON([]byte(doc)) }); pn != "" {
			r.Violation("C14/garbage-json/unmarshaljson-panic/"+panicKind(pn), fmt.Sprintf("UnmarshalJSON panicked: %s on %s", pn, vlib.Trunc(doc, 300)), vlib.Replay{"doc.json": doc})
		}
		if pn := safely(func() { fieldmask.Unmarshal([]byte(doc)) }); pn != "" {
			r.Violation("C14/garbage-json/unmarshal-panic/"+panicKind(pn), fmt.Sprintf("Unmarshal panicked: %s on %s", pn, vlib.Trunc(doc, 300)), vlib.Replay{"doc.json": doc})
		}
		r.Eval(1)
	}
	r.Sig("garbage/json-documents")
}

// c14Concurrent hammers the caches and the descriptor registry from 16 goroutines (race detector).
func c14Concurrent(r *vlib.Run, rng *vlib.Rng, masks []*fieldmask.FieldMask, dir string) {
	if len(masks) == 0 {
		return
	}
	ast, err := parser.ParseString("c.thrift", "struct A { 1: i32 a, 2: list<A> l, 3: map<string,A> m }")
	if err != nil {
		return
	}
	var wg sync.WaitGroup
	rounds := r.N(300, 3000)
	for g := 0; g < 16; g++ {
		wg.Add(1)
		go func(g int) {
			defer wg.Done()
			for i := 0; i < rounds; i++ {
				fm := masks[(g*7+i)%len(masks)]
				b, err := fieldmask.Marshal(fm)
				if err == nil {
					fieldmask.Unmarshal(b)
				}
				fm.MarshalJSON()
				if i%10 == 0 {
					gd, fd := thrift_reflection.RegisterAST(ast)
					if d := descOf(fd, "A"); d != nil {
						fieldmask.NewFieldMask(d, "$.a", "$.l[1].m{\"x\"}")
					}
					thrift_reflection.ReleaseGlobalDescriptors(gd)
				}
			}
		}(g)
	}
	wg.Wait()
	r.Eval(16 * rounds)
	r.Sig("concurrent/marshal-unmarshal-register")
}

func c14Races(r *vlib.Run) {
	reps := vlib.ReadRaceLogs(filepath.Join(os.Getenv("VERIF_BIN"), "race.log"))
	r.Count("race_reports_distinct", int64(len(reps)))
	for _, rep := range reps {
		if rep.InRepo {
			r.Violation("C14/data-race/"+rep.Key, "race detector report:\n"+vlib.Trunc(rep.Text, 3000), nil)
		}
	}
}
