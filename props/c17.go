package props

// C17 — Dumping an AST to IDL text and parsing it back gives the same IDL.

import (
	"fmt"
	"os"
	"path/filepath"
	"strings"
	"time"

	"github.com/cloudwego/thriftgo/parser"
	"github.com/cloudwego/thriftgo/tool/trimmer/dump"

	"verif/harness"
	"verif/idl"
	"verif/vlib"
)

func c17Opts(rng *vlib.Rng) idl.GenOpts {
	o := idl.DefaultOpts()
	o.Files = rng.Range(1, 3)
	o.Structs = rng.Range(1, 4)
	o.Annotations = 2
	o.TypeAnn = true
	o.HexIDs = true
	o.ExpDoubles = true
	o.CppIncludes = true
	o.ExtraNS = true
	o.DupNS = true
	o.HardLiterals = true
	o.GoEscapes = false
	o.NameStress = 1
	o.UnionDefault = true
	o.ArgDefaults = true
	o.ComposedLiterals = true
	o.HardDoubles = true
	return o
}

func C17(r *vlib.Run) {
	r.Rule = "one evaluation = one file of a generated program parsed by the real parser, dumped by dump.DumpIDL, parsed again and compared with the model definition by definition (names, type expressions, ids, requiredness, defaults and constants by value, enum values, annotation lists, includes, namespaces); each dumped program is also run through the semantic checker, and a sample through `trimmer -r`; distinct = grammar-element signatures present in the compared models"
	r.Assume("comments are not compared; a double may be re-read as an integer literal of equal value")
	dir := vlib.ScratchBase("vf-c17-")
	defer os.RemoveAll(dir)
	rng := vlib.NewRng(r.Seed, "c17")
	n := r.N(2000, 40000)
	rejected := 0
	for i := 0; i < n; i++ {
		p := idl.Generate(rng.Fork("p"), c17Opts(rng))
		sub := filepath.Join(dir, fmt.Sprintf("p%d", i))
		texts, err := harness.WriteProgram(sub, p, idl.PlainLayout())
		if err != nil {
			vlib.Fatal("C17", "write: %v", err)
		}
		out := filepath.Join(sub, "dumped")
		ok := true
		for _, f := range p.Files {
			ast, err := parser.ParseFile(filepath.Join(sub, f.Path), nil, false)
			if err != nil {
				r.Inconclusive("parser rejects a generated file: " + err.Error())
				rejected++
				ok = false
				break
			}
			var text string
			var derr error
			pn := safely(func() { text, derr = dump.DumpIDL(ast) })
			r.Eval(1)
			replay := vlib.Replay{"original.thrift": texts[f.Path], "dumped.thrift": text}
			if pn != "" || derr != nil {
				r.Violation("C17/dump-fails", fmt.Sprintf("DumpIDL: %v %s\n%s", derr, pn, vlib.Trunc(texts[f.Path], 1500)), replay)
				ok = false
				continue
			}
			vlib.WriteFiles(out, map[string]string{f.Path: text})
			ast2, err := c03ParseNamed(f.Path, text)
			if err != nil {
				r.Violation("C17/dumped-text-rejected-by-parser/"+c17ErrSite(err.Error(), text), fmt.Sprintf("%v\n--- dumped ---\n%s\n--- original ---\n%s", err, vlib.Trunc(text, 2500), vlib.Trunc(texts[f.Path], 1500)), replay)
				ok = false
				continue
			}
			for _, d := range idl.CompareDumped(f, ast2) {
				r.Violation("C17/"+c17Site(d.Site), fmt.Sprintf("%s\n--- dumped ---\n%s\n--- original ---\n%s", d, vlib.Trunc(text, 2500), vlib.Trunc(texts[f.Path], 1500)), replay)
			}
			c03ModelSigs(r, f)
		}
		if ok {
			// the dumped set as a whole passes the front end
			if _, stage, err := harness.Frontend(filepath.Join(out, "main.thrift")); err != nil {
				dt, _ := os.ReadFile(filepath.Join(out, "main.thrift"))
				r.Violation("C17/dumped-set-rejected/"+stage, fmt.Sprintf("%v\n--- dumped main ---\n%s", err, vlib.Trunc(string(dt), 2500)), vlib.Replay(texts))
			}
			r.Eval(1)
		}
		if i < 2 {
			dt, _ := os.ReadFile(filepath.Join(out, "main.thrift"))
			r.Sample(map[string]string{"original": vlib.Trunc(texts["main.thrift"], 800), "dumped": vlib.Trunc(string(dt), 800)})
		}
		// the trimmer binary writes every file with the same dumper
		if i%(n/20+1) == 0 {
			tout := filepath.Join(dir, fmt.Sprintf("t%d", i)) // -o must lie outside the -r base directory
			res := vlib.RunCLI(sub, nil, 60*time.Second, vlib.Bin("trimmer"), "-r", sub, "-o", tout, filepath.Join(sub, "main.thrift"))
			r.Eval(1)
			switch {
			case res.Crash != "":
				r.Violation("C17/trimmer-crash", vlib.Trunc(res.Stderr+res.Stdout, 1200), vlib.Replay(texts))
			case res.Exit != 0:
				r.Violation("C17/trimmer-fails", fmt.Sprintf("trimmer -r exits %d on an accepted program: %s", res.Exit, vlib.Trunc(res.Stderr+res.Stdout, 800)), vlib.Replay(texts))
			default:
				r.Sig("trimmer-binary-recursive-output-checked")
				if _, stage, err := harness.Frontend(filepath.Join(tout, "main.thrift")); err != nil {
					r.Violation("C17/trimmer-output-rejected/"+stage, fmt.Sprintf("trimmer -r output does not pass the front end: %v", err), vlib.Replay(texts))
				}
			}
			os.RemoveAll(tout)
		}
		os.RemoveAll(sub)
	}
	r.Require("trimmer-binary-recursive-output-checked")
	if rejected > n/50 {
		vlib.Fatal("C17", "the parser rejected %d of %d generated programs: the workload does not reach the dumper", rejected, n)
	}
}

func c03ParseNamed(name, text string) (ast *parser.Thrift, err error) {
	defer func() {
		if e := recover(); e != nil {
			err = fmt.Errorf("PANIC: %v", e)
		}
	}()
	return parser.ParseString(name, text)
}

// c17ErrSite classifies where the re-parse failed: the kind of construct on the offending line.
func c17ErrSite(msg, text string) string {
	var line int
	if i := strings.Index(msg, "line "); i >= 0 {
		fmt.Sscanf(msg[i:], "line %d", &line)
	}
	lines := strings.Split(text, "\n")
	if line > 0 && line <= len(lines) {
		l := strings.TrimSpace(lines[line-1])
		for _, k := range []string{"const", "typedef", "enum", "struct", "union", "exception", "service", "namespace", "include", "throws"} {
			if strings.HasPrefix(l, k) {
				return k
			}
		}
		if strings.Contains(l, "(") && strings.Contains(l, ")") && strings.Contains(l, "=") {
			return "field-or-function-with-annotation"
		}
		return "member-line"
	}
	return "unknown"
}

// c17Site drops the nesting positions of a type expression from a difference site, so that one defect of the
// type printer is one key however deep the type is.
func c17Site(site string) string {
	parts := strings.Split(site, ".")
	out := parts[:0]
	for _, p := range parts {
		if p == "elem" || p == "key" || p == "val" {
			continue
		}
		out = append(out, p)
	}
	return strings.Join(out, ".")
}
