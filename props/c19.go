package props

// C19 — Concurrent persist: all files written or an error, under every schedule.
//
// Runs generator.Generator.Persist (real code, through the public API with a registered
// backend that supplies N files and a scripted PostProcess) under injected faults and
// PRNG-driven yields at the verif hook points, records one event trace per call and checks
// it offline against the trace specification C3.9 + the filesystem post-state.

import (
	"errors"
	"fmt"
	"os"
	"path/filepath"
	"runtime"
	"sort"
	"strings"
	"sync"
	"sync/atomic"
	"time"

	"github.com/cloudwego/thriftgo/generator"
	"github.com/cloudwego/thriftgo/generator/backend"
	"github.com/cloudwego/thriftgo/plugin"

	"verif/vlib"
)

type c19Event struct {
	Seq  int64
	Src  string // "hook" (verif hook inside /repo) | "pp" (backend boundary) | "host"
	Ev   string
	Path string
}

type c19Trace struct {
	seq    int64
	mu     sync.Mutex
	events []c19Event
	// yield control
	rng     *vlib.Rng
	profile int
}

func (t *c19Trace) add(src, ev, path string) {
	s := atomic.AddInt64(&t.seq, 1)
	t.mu.Lock()
	t.events = append(t.events, c19Event{s, src, ev, path})
	t.mu.Unlock()
}

// yield perturbs the schedule at a trace point.  Profiles stretch known windows.
func (t *c19Trace) yield(ev string) {
	t.mu.Lock()
	x := t.rng.Intn(100)
	k := t.rng.Intn(4)
	t.mu.Unlock()
	switch t.profile {
	case 0: // no perturbation
		return
	case 1: // light random
		if x < 30 {
			for i := 0; i <= k; i++ {
				runtime.Gosched()
			}
		}
	case 2: // heavy random
		if x < 40 {
			for i := 0; i <= k*3; i++ {
				runtime.Gosched()
			}
		} else if x < 60 {
			time.Sleep(time.Duration(k*200) * time.Microsecond)
		}
	case 3: // stretch: worker slow to start / before its write (Add-in-goroutine, early return)
		if ev == "worker-start" || ev == "pp-enter" || ev == "write-begin" {
			time.Sleep(time.Duration(200+k*300) * time.Microsecond)
		}
	case 4: // stretch: before error send and after acquire (error pending while dispatcher proceeds)
		if ev == "err-send" || ev == "acquired" || ev == "dispatched" {
			time.Sleep(time.Duration(100+k*200) * time.Microsecond)
		} else if x < 20 {
			runtime.Gosched()
		}
	case 5: // stretch: worker exit (between Done and release) and dispatcher after error
		if ev == "worker-exit" || ev == "err-recv" || ev == "f-done" {
			time.Sleep(time.Duration(100+k*200) * time.Microsecond)
		}
	case 6: // slow successful writers, fast failing ones
		if ev == "pp-ok" {
			time.Sleep(time.Duration(300+k*300) * time.Microsecond)
		}
	}
}

var errInjected = errors.New("verif: injected post-process failure")

type c19Backend struct {
	files  []*plugin.Generated
	trace  *c19Trace
	failPP map[string]bool
	ppCnt  sync.Map // path -> *int64
}

func (b *c19Backend) Name() string                           { return "verif" }
func (b *c19Backend) Lang() string                           { return "verif" }
func (b *c19Backend) Options() []plugin.Option               { return nil }
func (b *c19Backend) BuiltinPlugins() []*plugin.Desc         { return nil }
func (b *c19Backend) GetPlugin(d *plugin.Desc) plugin.Plugin { return nil }
func (b *c19Backend) Generate(req *plugin.Request, log backend.LogFunc) *plugin.Response {
	return &plugin.Response{Contents: b.files}
}

func c19pp(path string, content []byte) []byte {
	return []byte(string(content) + "\n// post-processed:" + filepath.Base(path) + "\n")
}

func (b *c19Backend) PostProcess(path string, content []byte) ([]byte, error) {
	b.trace.add("pp", "pp-enter", path)
	b.trace.yield("pp-enter")
	defer b.trace.add("pp", "pp-exit", path)
	if b.failPP[path] {
		return content, errInjected
	}
	b.trace.yield("pp-ok")
	return c19pp(path, content), nil
}

type c19Case struct {
	N       int
	Conc    int
	FailPP  []int // job indices whose PostProcess fails
	FailW   []int // job indices whose write fails (ENOTDIR / EISDIR)
	Profile int
	Idx     int
}

func (c c19Case) String() string {
	return fmt.Sprintf("N=%d conc=%d failPP=%v failW=%v profile=%d", c.N, c.Conc, c.FailPP, c.FailW, c.Profile)
}

type c19Result struct {
	verdicts []string // violation keys
	detail   string
	sig      string
	incon    string
}

func c19RunCase(base string, c c19Case, seed int64) c19Result {
	var res c19Result
	dir := filepath.Join(base, fmt.Sprintf("c%d", c.Idx))
	os.MkdirAll(dir, 0o755)
	defer os.RemoveAll(dir)

	tr := &c19Trace{rng: vlib.NewRng(seed, "c19yield", fmt.Sprint(c.Idx)), profile: c.Profile}
	be := &c19Backend{trace: tr, failPP: map[string]bool{}}
	failW := map[int]bool{}
	for _, i := range c.FailW {
		failW[i] = true
	}
	failPP := map[int]bool{}
	for _, i := range c.FailPP {
		failPP[i] = true
	}
	paths := make([]string, c.N)
	contents := make([]string, c.N)
	for i := 0; i < c.N; i++ {
		var p string
		switch {
		case failW[i] && i%2 == 0:
			// parent is a regular file -> MkdirAll fails
			blocker := filepath.Join(dir, fmt.Sprintf("blk%d", i))
			os.WriteFile(blocker, []byte("x"), 0o644)
			p = filepath.Join(blocker, fmt.Sprintf("f%d.go", i))
		case failW[i]:
			// target is an existing directory -> WriteFile fails (EISDIR)
			p = filepath.Join(dir, fmt.Sprintf("d%d", i%3), fmt.Sprintf("f%d.go", i))
			os.MkdirAll(p, 0o755)
		default:
			p = filepath.Join(dir, fmt.Sprintf("d%d", i%3), fmt.Sprintf("f%d.go", i))
		}
		paths[i] = p
		contents[i] = fmt.Sprintf("// job %d of case %d\npackage p%d\n%s", i, c.Idx, i, strings.Repeat(fmt.Sprintf("// filler %d\n", i), 1+i%5))
		if failPP[i] {
			be.failPP[p] = true
		}
		name := p
		be.files = append(be.files, &plugin.Generated{Content: contents[i], Name: &name})
	}
	idx := map[string]int{}
	for i, p := range paths {
		idx[p] = i
	}

	g := &generator.Generator{}
	if err := g.RegisterBackend(be); err != nil {
		res.incon = "RegisterBackend: " + err.Error()
		return res
	}
	resp := g.Generate(&generator.Arguments{
		Out: &generator.LangSpec{Language: "verif"},
		Req: &plugin.Request{Language: "verif", OutputPath: dir},
		Log: backend.DummyLogFunc(),
	})
	if resp.GetError() != "" {
		res.incon = "Generate: " + resp.GetError()
		return res
	}
	if len(resp.Contents) != c.N {
		res.incon = fmt.Sprintf("Generate returned %d contents for %d files", len(resp.Contents), c.N)
		return res
	}

	old := runtime.GOMAXPROCS(c.Conc)
	defer runtime.GOMAXPROCS(old)
	generator.VerifHook = func(ev, path string) {
		tr.add("hook", ev, path)
		tr.yield(ev)
	}
	defer func() { generator.VerifHook = nil }()

	done := make(chan error, 1)
	var retSeq int64
	go func() {
		err := g.Persist(resp)
		atomic.StoreInt64(&retSeq, atomic.AddInt64(&tr.seq, 1))
		done <- err
	}()

	var perr error
	returned := false
	// watchdog: generous wall clock; only a state-based witness turns it into a verdict
	deadline := time.After(60 * time.Second)
	tick := time.NewTicker(500 * time.Millisecond)
	defer tick.Stop()
	lastSeq := int64(-1)
	stable := 0
wait:
	for {
		select {
		case perr = <-done:
			returned = true
			break wait
		case <-tick.C:
			cur := atomic.LoadInt64(&tr.seq)
			if cur == lastSeq {
				stable++
			} else {
				stable = 0
			}
			lastSeq = cur
			if stable >= 4 { // no event for 2 s: look at the goroutine states
				if w := c19DeadlockWitness(); w != "" {
					res.verdicts = append(res.verdicts, "deadlock/"+c19DeadlockKind(w))
					res.detail = "Persist did not return; every goroutine of the call is blocked:\n" + w + "\ncase: " + c.String() + "\n" + tr.dump(idx)
					return res
				}
			}
		case <-deadline:
			res.incon = "watchdog 60s without deadlock witness: " + c.String()
			return res
		}
	}
	_ = returned
	// snapshot the directory right after return
	snap1 := c19Snapshot(paths)
	// quiescence: wait until every post-process that was entered has exited and hook workers that started have exited
	for i := 0; i < 400; i++ {
		if tr.quiescent() {
			break
		}
		time.Sleep(5 * time.Millisecond)
	}
	time.Sleep(time.Millisecond)
	snap2 := c19Snapshot(paths)
	rs := atomic.LoadInt64(&retSeq)

	tr.mu.Lock()
	events := append([]c19Event(nil), tr.events...)
	tr.mu.Unlock()
	sort.Slice(events, func(i, j int) bool { return events[i].Seq < events[j].Seq })

	bad := func(key, f string, a ...interface{}) {
		res.verdicts = append(res.verdicts, key)
		if res.detail == "" {
			res.detail = fmt.Sprintf(f, a...) + "\ncase: " + c.String() + fmt.Sprintf("\nreturn seq=%d err=%v\n", rs, perr) + tr.dump(idx)
		}
	}

	// (1) nothing of this call happens after return
	for _, e := range events {
		if e.Seq > rs {
			bad("event-after-return/"+e.Src+":"+e.Ev, "event %s:%s(job %d) has seq %d > return seq %d: Persist returned while work of this call was still in flight", e.Src, e.Ev, idx[e.Path], e.Seq, rs)
			break
		}
	}
	for i := range paths {
		if snap1[i] != snap2[i] {
			bad("file-changed-after-return", "file of job %d changed after Persist returned", i)
			break
		}
	}
	// (2) each job post-processed at most once, written at most once
	cnt := map[string]int{}
	hookSeen := false
	for _, e := range events {
		if e.Src == "hook" {
			hookSeen = true
		}
		if e.Ev == "pp-enter" || e.Ev == "write-begin" || e.Ev == "worker-start" {
			cnt[e.Ev+"\x00"+e.Path]++
			if _, ok := idx[e.Path]; !ok {
				bad("unknown-path/"+e.Ev, "event %s for a path that is not a job of this call: %q", e.Ev, e.Path)
			}
		}
	}
	for k, n := range cnt {
		if n > 1 {
			parts := strings.SplitN(k, "\x00", 2)
			bad("job-twice/"+parts[0], "job %d saw %s %d times", idx[parts[1]], parts[0], n)
			break
		}
	}
	// (3) return value vs faults vs disk
	faults := len(c.FailPP) + len(c.FailW)
	if faults > 0 && perr == nil {
		bad("nil-return-with-failed-job", "Persist returned nil although jobs %v/%v were made to fail", c.FailPP, c.FailW)
	}
	if perr == nil {
		for i, p := range paths {
			if failW[i] || failPP[i] {
				continue
			}
			want := string(c19pp(p, []byte(contents[i])))
			got, ok := snap2[i], snap2[i] != "\x00absent"
			if !ok {
				bad("nil-return-file-missing", "Persist returned nil but file of job %d (%s) does not exist", i, p)
				break
			}
			if got != want {
				key := "nil-return-wrong-content"
				for j := range paths {
					if j != i && (got == string(c19pp(paths[j], []byte(contents[j]))) || strings.HasPrefix(got, fmt.Sprintf("// job %d ", j))) {
						key = "nil-return-content-of-other-job"
					}
				}
				if got == contents[i] {
					key = "nil-return-not-post-processed"
				} else if strings.HasPrefix(want, got) {
					key = "nil-return-short-file"
				}
				bad(key, "file of job %d has wrong content:\n got: %q\nwant: %q", i, got, want)
				break
			}
		}
	} else {
		// files that exist must still carry their own content (no mixing), even on error
		for i, p := range paths {
			got := snap2[i]
			if got == "\x00absent" || got == "\x00dir" {
				continue
			}
			want := string(c19pp(p, []byte(contents[i])))
			if got != want {
				bad("error-return-wrong-content", "on error return, file of job %d exists with foreign/partial content:\n got: %q\nwant: %q", i, got, want)
				break
			}
		}
		if faults == 0 {
			bad("error-return-without-fault", "Persist returned error %v although no job was made to fail", perr)
		}
	}
	if !hookSeen {
		res.incon = "verif hook events absent (boundary events only)"
	}

	// interleaving signature: order of (event, job) pairs
	var sb strings.Builder
	for _, e := range events {
		fmt.Fprintf(&sb, "%s%d;", e.Ev, idx[e.Path])
	}
	res.sig = fmt.Sprintf("%x", vlib.Hash64(sb.String()))
	return res
}

func (t *c19Trace) quiescent() bool {
	t.mu.Lock()
	defer t.mu.Unlock()
	open := 0
	for _, e := range t.events {
		switch e.Ev {
		case "pp-enter", "worker-start":
			open++
		case "pp-exit", "worker-exit":
			open--
		}
	}
	return open == 0
}

func (t *c19Trace) dump(idx map[string]int) string {
	t.mu.Lock()
	defer t.mu.Unlock()
	ev := append([]c19Event(nil), t.events...)
	sort.Slice(ev, func(i, j int) bool { return ev[i].Seq < ev[j].Seq })
	var sb strings.Builder
	sb.WriteString("trace:\n")
	for i, e := range ev {
		if i > 400 {
			sb.WriteString("  …\n")
			break
		}
		j, ok := idx[e.Path]
		js := "-"
		if ok {
			js = fmt.Sprint(j)
		}
		fmt.Fprintf(&sb, "  %4d %-4s %-14s job=%s\n", e.Seq, e.Src, e.Ev, js)
	}
	return sb.String()
}

func c19Snapshot(paths []string) []string {
	out := make([]string, len(paths))
	for i, p := range paths {
		st, err := os.Stat(p)
		if err != nil {
			out[i] = "\x00absent"
			continue
		}
		if st.IsDir() {
			out[i] = "\x00dir"
			continue
		}
		b, err := os.ReadFile(p)
		if err != nil {
			out[i] = "\x00absent"
			continue
		}
		out[i] = string(b)
	}
	return out
}

// c19DeadlockWitness returns the goroutine dump restricted to goroutines inside the
// generator package if ALL of them are blocked on channel/sync operations (a state from
// which the call cannot progress: only these goroutines touch those channels), else "".
func c19DeadlockWitness() string {
	buf := make([]byte, 4<<20)
	n := runtime.Stack(buf, true)
	gs := strings.Split(string(buf[:n]), "\n\n")
	var in []string
	for _, g := range gs {
		if !strings.Contains(g, "thriftgo/generator.") {
			continue
		}
		in = append(in, g)
		hdr := g
		if i := strings.Index(g, "\n"); i > 0 {
			hdr = g[:i]
		}
		blocked := strings.Contains(hdr, "[chan send") || strings.Contains(hdr, "[chan receive") ||
			strings.Contains(hdr, "[select") || strings.Contains(hdr, "[semacquire") || strings.Contains(hdr, "[sync.")
		if !blocked {
			return ""
		}
	}
	if len(in) == 0 {
		return ""
	}
	return strings.Join(in, "\n\n")
}

func c19DeadlockKind(w string) string {
	kinds := map[string]bool{}
	for _, line := range strings.Split(w, "\n") {
		if strings.HasPrefix(line, "goroutine ") {
			if i := strings.Index(line, "["); i > 0 {
				k := strings.TrimRight(line[i+1:], "]:")
				if j := strings.Index(k, ","); j > 0 {
					k = k[:j]
				}
				kinds[k] = true
			}
		}
	}
	var ks []string
	for k := range kinds {
		ks = append(ks, k)
	}
	sort.Strings(ks)
	return strings.Join(ks, "+")
}

func subsets(n int) [][]int {
	var out [][]int
	for m := 0; m < 1<<uint(n); m++ {
		var s []int
		for i := 0; i < n; i++ {
			if m&(1<<uint(i)) != 0 {
				s = append(s, i)
			}
		}
		out = append(out, s)
	}
	return out
}

func C19(r *vlib.Run) {
	r.Rule = "one case = one call of Generator.Persist on N scripted files with a fault subset (post-process or write failures), a GOMAXPROCS value and a yield profile; evaluations = calls checked against the trace specification; distinct = distinct interleaving signatures (hash of the observed order of (event,job) pairs from the verif hooks and the backend boundary)"
	r.Assume("the Go scheduler can be nudged only at the hook points and inside PostProcess; exhaustive interleaving coverage is not claimed")
	base := "/dev/shm"
	if st, err := os.Stat(base); err != nil || !st.IsDir() {
		base = os.TempDir()
	}
	base, err := os.MkdirTemp(base, "vf-c19-")
	if err != nil {
		vlib.Fatal("C19", "mktemp: %v", err)
	}
	defer os.RemoveAll(base)

	rng := vlib.NewRng(r.Seed, "c19cases")
	var cases []c19Case
	concs := []int{1, 2, 3, 4, 8, 16}
	profiles := 7
	// every subset of failing jobs for N<=5, each kind of failure chosen per job by PRNG
	reps := r.N(2, 24)
	for n := 0; n <= 5; n++ {
		for _, sub := range subsets(n) {
			for rep := 0; rep < reps*len(concs); rep++ {
				c := c19Case{N: n, Conc: concs[rep%len(concs)], Profile: (rep/len(concs) + rng.Intn(profiles)) % profiles}
				for _, j := range sub {
					if rng.Bool() {
						c.FailPP = append(c.FailPP, j)
					} else {
						c.FailW = append(c.FailW, j)
					}
				}
				cases = append(cases, c)
			}
		}
	}
	// larger N with random subsets
	big := r.N(600, 12000)
	for i := 0; i < big; i++ {
		n := []int{6, 7, 8, 8, 12, 20, 64}[rng.Intn(7)]
		if i%97 == 0 {
			n = 512
		}
		c := c19Case{N: n, Conc: concs[rng.Intn(len(concs))], Profile: rng.Intn(profiles)}
		nf := 0
		switch rng.Intn(4) {
		case 0:
			nf = 0
		case 1:
			nf = 1
		case 2:
			nf = 2 + rng.Intn(3)
		case 3:
			nf = n/2 + rng.Intn(n/2+1)
		}
		for _, j := range rng.Perm(n)[:nf] {
			if rng.Bool() {
				c.FailPP = append(c.FailPP, j)
			} else {
				c.FailW = append(c.FailW, j)
			}
		}
		sort.Ints(c.FailPP)
		sort.Ints(c.FailW)
		cases = append(cases, c)
	}
	// regression corpus (seed-independent): shapes that matter
	cases = append(cases,
		c19Case{N: 4, Conc: 1, FailPP: []int{0, 1, 2, 3}, Profile: 4},
		c19Case{N: 6, Conc: 2, FailW: []int{0, 1, 2, 3, 4, 5}, Profile: 5},
		c19Case{N: 3, Conc: 16, Profile: 3},
		c19Case{N: 8, Conc: 1, FailPP: []int{7}, Profile: 6},
		c19Case{N: 8, Conc: 2, FailW: []int{0}, Profile: 6},
		c19Case{N: 0, Conc: 4, Profile: 1},
	)
	for i := range cases {
		cases[i].Idx = i
	}
	hookless := 0
	for _, c := range cases {
		res := c19RunCase(base, c, r.Seed)
		if res.incon != "" && len(res.verdicts) == 0 && !strings.HasPrefix(res.incon, "verif hook events absent") {
			r.Inconclusive(res.incon)
			continue
		}
		if strings.HasPrefix(res.incon, "verif hook events absent") && c.N > 0 {
			hookless++
		}
		r.Eval(1)
		if res.sig != "" {
			r.Sig(res.sig)
		}
		r.Count(fmt.Sprintf("cases_N%s", bucketN(c.N)), 1)
		r.Count(fmt.Sprintf("cases_profile%d", c.Profile), 1)
		if len(c.FailPP)+len(c.FailW) > 0 {
			r.Count("cases_with_faults", 1)
		}
		for _, k := range res.verdicts {
			r.Violation("C19/"+k, res.detail, vlib.Replay{"case.txt": c.String() + "\n"})
		}
		if len(res.verdicts) > 0 && strings.HasPrefix(res.verdicts[0], "deadlock") {
			break // the leaked call would distort later runs
		}
		if c.Idx%200 == 0 {
			r.Sample(map[string]interface{}{"case": c.String(), "interleaving_signature": res.sig})
		}
	}
	if hookless > 0 {
		fmt.Printf("NOTE property=C19 %d calls produced no verif-hook events (decided on boundary events only)\n", hookless)
		r.Count("calls_without_hook_events", int64(hookless))
	}
	// race detector: this binary is built with -race; reports go to the GORACE log_path
	c19Races(r)
}

func bucketN(n int) string {
	switch {
	case n <= 5:
		return fmt.Sprint(n)
	case n <= 8:
		return "6-8"
	case n <= 64:
		return "9-64"
	}
	return "512"
}

func c19Races(r *vlib.Run) {
	prefix := filepath.Join(os.Getenv("VERIF_BIN"), "race.log")
	reps := vlib.ReadRaceLogs(prefix)
	r.Count("race_reports_distinct", int64(len(reps)))
	for _, rep := range reps {
		if rep.InRepo {
			r.Violation("C19/data-race/"+rep.Key, "race detector report on the persist path:\n"+rep.Text, nil)
		}
	}
}
