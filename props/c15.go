package props

// C15 — Reflection descriptors describe the IDL exactly.

import (
	"encoding/json"
	"fmt"
	"os"
	"path/filepath"
	"reflect"
	"sort"
	"strings"
	"sync"

	"github.com/cloudwego/thriftgo/parser"
	tr "github.com/cloudwego/thriftgo/thrift_reflection"

	"verif/guest"
	"verif/harness"
	"verif/idl"
	"verif/vlib"
)

func c15Opts(rng *vlib.Rng, forGuest bool) idl.GenOpts {
	o := idl.DefaultOpts()
	o.Files = rng.Range(1, 4)
	o.Structs = rng.Range(1, 4)
	o.Annotations = 2
	o.ExtraNS = true
	o.SameBase = rng.Chance(1, 3)
	o.TypedefChains = rng.Bool()
	o.MoreServices = rng.Bool()
	o.ExpDoubles = true
	o.HexIDs = true
	o.ArgDefaults = !forGuest
	if !forGuest {
		o.HardLiterals = true
		o.GoEscapes = false
		o.TypeAnn = true
		o.CppIncludes = true
		o.UnionDefault = true
	}
	return o
}

// ---------- expected descriptor (canonical form) from the model ----------

func cMap(pairs [][2]interface{}) interface{} {
	type kv struct {
		k string
		p []interface{}
	}
	var kvs []kv
	for _, p := range pairs {
		bk, _ := json.Marshal(p[0])
		bv, _ := json.Marshal(p[1])
		kvs = append(kvs, kv{string(bk) + "\x00" + string(bv), []interface{}{p[0], p[1]}})
	}
	sort.SliceStable(kvs, func(i, j int) bool { return kvs[i].k < kvs[j].k })
	out := []interface{}{}
	for _, e := range kvs {
		out = append(out, e.p)
	}
	return map[string]interface{}{"map": out}
}

func c15Ann(a []idl.AnnPair) interface{} {
	var keys []string
	vals := map[string][]interface{}{}
	for _, p := range a {
		if _, ok := vals[p.K]; !ok {
			keys = append(keys, p.K)
		}
		vals[p.K] = append(vals[p.K], p.V)
	}
	var pairs [][2]interface{}
	for _, k := range keys {
		pairs = append(pairs, [2]interface{}{k, vals[k]})
	}
	return cMap(pairs)
}

func c15Type(fp string, t *idl.Type) interface{} {
	if t == nil {
		return nil
	}
	name := t.Name
	if t.Ref != nil {
		name = t.Written()
	}
	return map[string]interface{}{"Filepath": fp, "Name": name, "KeyType": c15Type(fp, t.Key), "ValueType": c15Type(fp, t.Elem)}
}

const (
	cvDouble = "0"
	cvInt    = "1"
	cvString = "2"
	cvBool   = "3"
	cvList   = "4"
	cvMap    = "5"
	cvIdent  = "6"
)

func c15Value(v *idl.Value) interface{} {
	if v == nil {
		return nil
	}
	e := map[string]interface{}{"Type": "", "ValueDouble": "d0000000000000000", "ValueInt": "0", "ValueString": "", "ValueBool": false,
		"ValueList": []interface{}{}, "ValueMap": cMap(nil), "ValueIdentifier": ""}
	switch v.Kind {
	case idl.VInt:
		e["Type"] = cvInt
		e["ValueInt"] = fmt.Sprint(v.Int)
	case idl.VDouble:
		e["Type"] = cvDouble
		e["ValueDouble"] = guest.Canon(v.Dbl)
	case idl.VString:
		e["Type"] = cvString
		e["ValueString"] = v.Str
	case idl.VIdent:
		switch {
		case v.BoolLit == 1:
			e["Type"] = cvBool
			e["ValueBool"] = true
		case v.BoolLit == 2:
			e["Type"] = cvBool
		default:
			e["Type"] = cvIdent
			e["ValueIdentifier"] = v.Ident
		}
	case idl.VList:
		e["Type"] = cvList
		l := []interface{}{}
		for _, x := range v.List {
			l = append(l, c15Value(x))
		}
		e["ValueList"] = l
	case idl.VMap:
		e["Type"] = cvMap
		var pairs [][2]interface{}
		for _, kv := range v.Map {
			pairs = append(pairs, [2]interface{}{c15Value(kv[0]), c15Value(kv[1])})
		}
		e["ValueMap"] = cMap(pairs)
	}
	return e
}

// c15Field: optDefault is set for union members and throws fields, which the semantic checker makes optional
// unless they are written required.
func c15Field(fp string, f *idl.Field, optDefault bool) interface{} {
	req := map[idl.Req]string{idl.ReqDefault: "Default", idl.ReqRequired: "Required", idl.ReqOptional: "Optional"}[f.Req]
	if optDefault && f.Req == idl.ReqDefault {
		req = "Optional"
	}
	return map[string]interface{}{"Filepath": fp, "Name": f.Name, "Type": c15Type(fp, f.Type), "Requiredness": req, "ID": fmt.Sprint(f.ID),
		"DefaultValue": c15Value(f.Default), "Annotations": c15Ann(f.Ann)}
}

func c15Fields(fp string, fs []*idl.Field, optDefault bool) interface{} {
	out := []interface{}{}
	for _, f := range fs {
		out = append(out, c15Field(fp, f, optDefault))
	}
	return out
}

// c15Expect is the canonical form (guest.Canon without Extra and Comments) of the descriptor the file must have.
func c15Expect(f *idl.File, fpOf func(*idl.File) string) map[string]interface{} {
	fp := fpOf(f)
	e := map[string]interface{}{"Filepath": fp}
	var incs, nss [][2]interface{}
	for _, inc := range f.Includes {
		incs = append(incs, [2]interface{}{inc.File.Prefix(), fpOf(inc.File)})
	}
	e["Includes"] = cMap(incs)
	lastNS := map[string]string{}
	var order []string
	for _, n := range f.Namespaces {
		if _, ok := lastNS[n.Lang]; !ok {
			order = append(order, n.Lang)
		}
		lastNS[n.Lang] = n.Name
	}
	for _, l := range order {
		nss = append(nss, [2]interface{}{l, lastNS[l]})
	}
	e["Namespaces"] = cMap(nss)
	lists := map[string][]interface{}{"Services": {}, "Structs": {}, "Exceptions": {}, "Enums": {}, "Typedefs": {}, "Unions": {}, "Consts": {}}
	for _, d := range f.Defs {
		switch d.Kind {
		case idl.KStruct, idl.KUnion, idl.KException:
			k := map[idl.DefKind]string{idl.KStruct: "Structs", idl.KUnion: "Unions", idl.KException: "Exceptions"}[d.Kind]
			lists[k] = append(lists[k], map[string]interface{}{"Filepath": fp, "Name": d.Name, "Fields": c15Fields(fp, d.Fields, d.Kind == idl.KUnion), "Annotations": c15Ann(d.Ann)})
		case idl.KEnum:
			vals := []interface{}{}
			next := int64(0)
			for _, ev := range d.EnumVals {
				v := next
				if ev.Explicit {
					v = ev.Value
				}
				next = v + 1
				vals = append(vals, map[string]interface{}{"Filepath": fp, "Name": ev.Name, "Value": fmt.Sprint(v), "Annotations": c15Ann(ev.Ann)})
			}
			lists["Enums"] = append(lists["Enums"], map[string]interface{}{"Filepath": fp, "Name": d.Name, "Values": vals, "Annotations": c15Ann(d.Ann)})
		case idl.KTypedef:
			lists["Typedefs"] = append(lists["Typedefs"], map[string]interface{}{"Filepath": fp, "Type": c15Type(fp, d.Type), "Alias": d.Name, "Annotations": c15Ann(d.Ann)})
		case idl.KConst:
			lists["Consts"] = append(lists["Consts"], map[string]interface{}{"Filepath": fp, "Name": d.Name, "Type": c15Type(fp, d.Type), "Value": c15Value(d.Value), "Annotations": c15Ann(d.Ann)})
		case idl.KService:
			ms := []interface{}{}
			for _, fn := range d.Funcs {
				var resp interface{}
				if fn.Void {
					resp = c15Type(fp, &idl.Type{Name: "void"})
				} else {
					resp = c15Type(fp, fn.Ret)
				}
				ms = append(ms, map[string]interface{}{"Filepath": fp, "Name": fn.Name, "Response": resp, "Args": c15Fields(fp, fn.Args, false),
					"Annotations": c15Ann(fn.Ann), "ThrowExceptions": c15Fields(fp, fn.Throws, true), "IsOneway": fn.Oneway})
			}
			base := ""
			if d.Extends != nil {
				base = d.Extends.Name
				if d.Extends.File != f {
					base = d.Extends.File.Prefix() + "." + d.Extends.Name
				}
			}
			lists["Services"] = append(lists["Services"], map[string]interface{}{"Filepath": fp, "Name": d.Name, "Methods": ms, "Annotations": c15Ann(d.Ann), "Base": base})
		}
	}
	for k, v := range lists {
		e[k] = v
	}
	return e
}

// c15DupAlias reports the include aliases (file base names) that file f uses for two different includes.
func c15DupAlias(f *idl.File) map[string]bool {
	n := map[string]int{}
	for _, inc := range f.Includes {
		n[inc.File.Prefix()]++
	}
	out := map[string]bool{}
	for a, c := range n {
		if c > 1 {
			out[a] = true
		}
	}
	return out
}

const c15DupKey = "two-includes-with-one-base-name"

// ---------- canonical tree diff ----------

type c15Diff struct{ site, where, detail string }

func c15Compare(want, got interface{}, site, where string, out *[]c15Diff) {
	if len(*out) > 40 {
		return
	}
	switch w := want.(type) {
	case map[string]interface{}:
		g, ok := got.(map[string]interface{})
		if !ok {
			*out = append(*out, c15Diff{site, where, fmt.Sprintf("want an object, got %s", c15Short(got))})
			return
		}
		var keys []string
		for k := range w {
			keys = append(keys, k)
		}
		for k := range g {
			if _, ok := w[k]; !ok {
				keys = append(keys, k)
			}
		}
		sort.Strings(keys)
		for _, k := range keys {
			wv, wok := w[k]
			gv, gok := g[k]
			if !wok || !gok {
				*out = append(*out, c15Diff{site + "." + k, where, fmt.Sprintf("present in expectation %v, in descriptor %v", wok, gok)})
				continue
			}
			nw := where
			if k == "Name" || k == "Alias" {
				if s, ok := wv.(string); ok {
					nw = where + "/" + s
				}
			}
			c15Compare(wv, gv, site+"."+k, nw, out)
		}
	case []interface{}:
		g, ok := got.([]interface{})
		if !ok {
			*out = append(*out, c15Diff{site, where, fmt.Sprintf("want a list, got %s", c15Short(got))})
			return
		}
		if len(w) != len(g) {
			*out = append(*out, c15Diff{site + ".len", where, fmt.Sprintf("want %d entries %s, got %d %s", len(w), c15Short(want), len(g), c15Short(got))})
			return
		}
		for i := range w {
			nw := where
			if m, ok := w[i].(map[string]interface{}); ok {
				if s, ok := m["Name"].(string); ok {
					nw += "/" + s
				} else if s, ok := m["Alias"].(string); ok {
					nw += "/" + s
				}
			}
			c15Compare(w[i], g[i], site+"[]", nw, out)
		}
	default:
		if !reflect.DeepEqual(want, got) {
			*out = append(*out, c15Diff{site, where, fmt.Sprintf("want %s, got %s", c15Short(want), c15Short(got))})
		}
	}
}

func c15Short(v interface{}) string {
	b, _ := json.Marshal(v)
	return vlib.Trunc(string(b), 300)
}

// ---------- API answers against the model ----------

type c15Ctx struct {
	r     *vlib.Run
	p     *idl.Program
	fpOf  func(*idl.File) string
	texts map[string]string
	mode  string // "in-process" or "generated"
}

func (c *c15Ctx) bad(key, detail string) {
	if strings.Contains(key, c15DupKey) {
		// one root cause in both modes
		c.badKey("C15/"+c15DupKey+"/"+strings.SplitN(key, "/", 2)[0], detail)
		return
	}
	c.badKey("C15/"+c.mode+"/"+key, detail)
}

func (c *c15Ctx) badKey(key, detail string) {
	rp := vlib.Replay{}
	for k, v := range c.texts {
		rp[k] = v
	}
	c.r.Violation(key, detail+"\n--- main.thrift ---\n"+vlib.Trunc(c.texts["main.thrift"], 1500), rp)
}

func pairOf(x interface{}) (string, string, bool) {
	l, ok := x.([]interface{})
	if !ok || len(l) != 2 {
		return "", "", false
	}
	a, _ := l[0].(string)
	b, _ := l[1].(string)
	return a, b, true
}

func (c *c15Ctx) lookups() (qs []interface{}, wants [][2]string, tags []string) {
	count := map[string]int{}
	files := c.p.ReachableFiles()
	for _, f := range files {
		for _, d := range f.Defs {
			count[d.Kind.String()+"\x00"+d.Name]++
		}
	}
	add := func(kind, name, file, svc string, wn, wf, tag string) {
		q := map[string]interface{}{"kind": kind, "name": name, "file": file}
		if svc != "" {
			q["service"] = svc
		}
		qs = append(qs, q)
		wants = append(wants, [2]string{wn, wf})
		tags = append(tags, tag)
	}
	for _, f := range files {
		fp := c.fpOf(f)
		add("fd", "", fp, "", "", fp, "file")
		for _, d := range f.Defs {
			k := d.Kind.String()
			add(k, d.Name, fp, "", d.Name, fp, k+"/by-file")
			if count[k+"\x00"+d.Name] == 1 {
				add(k, d.Name, "", "", d.Name, fp, k+"/any-file")
			}
			add(k, d.Name+"_nope", fp, "", "", "", k+"/absent")
			// through the include alias of every file that includes this one
			for _, g := range files {
				aliasN := 0
				for _, inc := range g.Includes {
					if inc.File.Prefix() == f.Prefix() {
						aliasN++
					}
				}
				if g.IncludeIndex(f) >= 0 && aliasN == 1 && d.Kind != idl.KService && d.Kind != idl.KConst {
					add(k, f.Prefix()+"."+d.Name, c.fpOf(g), "", d.Name, fp, k+"/through-include-alias")
				}
			}
			if d.Kind == idl.KService {
				for _, fn := range d.Funcs {
					add("method", fn.Name, fp, d.Name, fn.Name, fp, "method/by-service")
				}
			}
		}
	}
	return
}

func (c *c15Ctx) checkAPI(res map[string]interface{}, wants [][2]string, tags []string) {
	r := c.r
	// lookups
	lres, _ := res["lookups"].([]interface{})
	if len(lres) != len(wants) {
		c.bad("lookup/answers-missing", fmt.Sprintf("%d lookups asked, %d answered", len(wants), len(lres)))
	}
	for i := 0; i < len(lres) && i < len(wants); i++ {
		m, _ := lres[i].(map[string]interface{})
		r.Eval(1)
		if pn, _ := m["panic"].(string); pn != "" {
			c.bad("lookup/panic/"+tags[i], "lookup panics: "+pn)
			continue
		}
		gn, gf, ok := pairOf(m["got"])
		want := wants[i]
		switch {
		case want[1] == "" && ok:
			c.bad("lookup/finds-absent-name/"+tags[i], fmt.Sprintf("lookup of an absent name finds %s in %s", gn, gf))
		case want[1] != "" && !ok:
			c.bad("lookup/not-found/"+tags[i], fmt.Sprintf("lookup of %q (%s) finds nothing, want the entry of %s", want[0], tags[i], want[1]))
		case want[1] != "" && (gn != want[0] || gf != want[1]):
			c.bad("lookup/wrong-entry/"+tags[i], fmt.Sprintf("lookup of %q (%s) finds %s in %s, want the entry of %s", want[0], tags[i], gn, gf, want[1]))
		default:
			r.Sigf("%s:lookup:%s", c.mode, tags[i])
		}
	}
	// named type expressions
	byFileName := map[string]*idl.Def{}
	var visit func(f *idl.File, t *idl.Type)
	visit = func(f *idl.File, t *idl.Type) {
		if t == nil {
			return
		}
		visit(f, t.Key)
		visit(f, t.Elem)
		if t.Ref != nil {
			byFileName[c.fpOf(f)+"\x00"+t.Written()] = t.Ref
		}
	}
	for _, f := range c.p.ReachableFiles() {
		for _, d := range f.Defs {
			visit(f, d.Type)
			for _, fl := range d.Fields {
				visit(f, fl.Type)
			}
			for _, fn := range d.Funcs {
				visit(f, fn.Ret)
				for _, a := range fn.Args {
					visit(f, a.Type)
				}
				for _, a := range fn.Throws {
					visit(f, a.Type)
				}
			}
		}
	}
	fileOf := map[string]*idl.File{}
	for _, f := range c.p.ReachableFiles() {
		fileOf[c.fpOf(f)] = f
	}
	// a name written through an include alias that two includes of the file share
	ambiguous := func(file, name string) bool {
		i := strings.LastIndex(name, ".")
		f := fileOf[file]
		return i > 0 && f != nil && c15DupAlias(f)[name[:i]]
	}
	tres, _ := res["typeres"].([]interface{})
	seen := map[string]bool{}
	for _, x := range tres {
		m, _ := x.(map[string]interface{})
		file, _ := m["file"].(string)
		name, _ := m["name"].(string)
		d := byFileName[file+"\x00"+name]
		seen[file+"\x00"+name] = true
		r.Eval(1)
		if d == nil {
			c.bad("type-resolution/unknown-type-expression", fmt.Sprintf("descriptor mentions type %q in %s, which the IDL does not", name, file))
			continue
		}
		loc := "local"
		if strings.Contains(name, ".") {
			loc = "foreign"
		}
		if ambiguous(file, name) {
			ok := false
			if gn, gf, found := pairOf(m[d.Kind.String()]); found && gn == d.Name && gf == c.fpOf(d.File) {
				ok = true
			}
			if !ok {
				c.bad("type-resolution/"+c15DupKey, fmt.Sprintf("type %q written in %s (%s %s of %s) is not resolved: %v", name, file, d.Kind, d.Name, c.fpOf(d.File), m))
			}
			continue
		}
		if pn, _ := m["panic"].(string); pn != "" {
			c.bad("type-resolution/panic/"+d.Kind.String()+"/"+loc, fmt.Sprintf("resolving type %q of %s panics: %s", name, file, pn))
			continue
		}
		okAll := true
		for _, k := range []string{"struct", "union", "exception", "enum", "typedef"} {
			gn, gf, found := pairOf(m[k])
			should := d.Kind.String() == k
			switch {
			case should && !found:
				c.bad("type-resolution/not-resolved/"+k+"/"+loc, fmt.Sprintf("type %q written in %s is a %s (%s of %s) but Get%sDescriptor finds nothing", name, file, k, d.Name, c.fpOf(d.File), strings.Title(k)))
				okAll = false
			case should && (gn != d.Name || gf != c.fpOf(d.File)):
				c.bad("type-resolution/wrong-entry/"+k+"/"+loc, fmt.Sprintf("type %q written in %s resolves to %s of %s, want %s of %s", name, file, gn, gf, d.Name, c.fpOf(d.File)))
				okAll = false
			case !should && found:
				c.bad("type-resolution/resolves-as-other-kind/"+d.Kind.String()+"-as-"+k+"/"+loc, fmt.Sprintf("type %q written in %s is a %s but also resolves as %s %s of %s", name, file, d.Kind, k, gn, gf))
				okAll = false
			}
		}
		wantFlags := fmt.Sprintf("struct=%v union=%v exception=%v enum=%v typedef=%v", d.Kind == idl.KStruct, d.Kind == idl.KUnion, d.Kind == idl.KException, d.Kind == idl.KEnum, d.Kind == idl.KTypedef)
		if fl, _ := m["flags"].(string); okAll && fl != wantFlags {
			c.bad("type-resolution/kind-predicates/"+d.Kind.String()+"/"+loc, fmt.Sprintf("type %q of %s: predicates say %s, want %s", name, file, fl, wantFlags))
		} else if okAll {
			r.Sigf("%s:type-resolution:%s:%s", c.mode, d.Kind, loc)
		}
	}
	for k := range byFileName {
		if !seen[k] {
			r.Eval(1)
			c.bad("type-resolution/type-expression-missing", fmt.Sprintf("the IDL mentions type %q which no descriptor mentions", strings.ReplaceAll(k, "\x00", ": ")))
		}
	}
	// services
	svcs := map[string]*idl.Def{}
	for _, f := range c.p.ReachableFiles() {
		for _, d := range f.DefsOf(idl.KService) {
			svcs[c.fpOf(f)+"\x00"+d.Name] = d
		}
	}
	sres, _ := res["services"].([]interface{})
	for _, x := range sres {
		m, _ := x.(map[string]interface{})
		file, _ := m["file"].(string)
		name, _ := m["name"].(string)
		d := svcs[file+"\x00"+name]
		r.Eval(1)
		if d == nil {
			continue // reported by the descriptor comparison
		}
		pos := "no-base"
		if d.Extends != nil {
			pos = "local-base"
			if d.Extends.File != d.File {
				pos = "foreign-base"
			}
		}
		if pn, _ := m["panic"].(string); pn != "" {
			c.bad("service/panic/"+pos, fmt.Sprintf("GetParent/GetAllMethods of %s panics: %s", name, pn))
			continue
		}
		pn, pf, has := pairOf(m["parent"])
		ambChain := false
		for x := d; x != nil && x.Extends != nil; x = x.Extends {
			if x.Extends.File != x.File && c15DupAlias(x.File)[x.Extends.File.Prefix()] {
				ambChain = true
			}
		}
		if ambChain {
			var want, got []string
			for x := d; x != nil; x = x.Extends {
				for _, fn := range x.Funcs {
					want = append(want, fn.Name+"@"+c.fpOf(x.File))
				}
			}
			all, _ := m["all"].([]interface{})
			for _, a := range all {
				n, f, _ := pairOf(a)
				got = append(got, n+"@"+f)
			}
			if strings.Join(want, ",") != strings.Join(got, ",") {
				c.bad("service/"+c15DupKey, fmt.Sprintf("%s: a base service reached through an include alias that two includes share is not found: GetAllMethods gives %v, want %v", name, got, want))
			}
			continue
		}
		switch {
		case d.Extends == nil && has:
			c.bad("service/parent-of-service-without-base", fmt.Sprintf("%s has no base but GetParent finds %s", name, pn))
		case d.Extends != nil && !has:
			c.bad("service/parent-not-found/"+pos, fmt.Sprintf("%s extends %s but GetParent finds nothing", name, d.Extends.Name))
		case d.Extends != nil && (pn != d.Extends.Name || pf != c.fpOf(d.Extends.File)):
			c.bad("service/wrong-parent/"+pos, fmt.Sprintf("%s extends %s of %s but GetParent finds %s of %s", name, d.Extends.Name, c.fpOf(d.Extends.File), pn, pf))
		}
		var want []string
		for x := d; x != nil; x = x.Extends {
			for _, fn := range x.Funcs {
				want = append(want, fn.Name+"@"+c.fpOf(x.File))
			}
		}
		var got []string
		all, _ := m["all"].([]interface{})
		for _, a := range all {
			n, f, _ := pairOf(a)
			got = append(got, n+"@"+f)
		}
		if strings.Join(want, ",") != strings.Join(got, ",") {
			c.bad("service/all-methods/"+pos, fmt.Sprintf("GetAllMethods of %s gives %v, want %v", name, got, want))
		} else {
			r.Sigf("%s:service:%s", c.mode, pos)
		}
	}
	if fb, _ := res["fields_bad"].([]interface{}); len(fb) > 0 {
		c.bad("struct/field-lookup", fmt.Sprintf("GetFieldById/GetFieldByName: %v", fb))
	}
}

// c15Comments compares the comments of a descriptor with those the parser attached to the AST.
func c15Comments(fd *tr.FileDescriptor, ast *parser.Thrift) []string {
	var bad []string
	chk := func(kind, name, got, want string) {
		if got != want {
			bad = append(bad, fmt.Sprintf("%s %s: comments %q, the parser holds %q", kind, name, got, want))
		}
	}
	sl := func(kind string, ds []*tr.StructDescriptor, as []*parser.StructLike) {
		for i := 0; i < len(ds) && i < len(as); i++ {
			chk(kind, as[i].Name, ds[i].Comments, as[i].ReservedComments)
			for j := 0; j < len(ds[i].Fields) && j < len(as[i].Fields); j++ {
				chk(kind+"-field", as[i].Name+"."+as[i].Fields[j].Name, ds[i].Fields[j].Comments, as[i].Fields[j].ReservedComments)
			}
		}
	}
	sl("struct", fd.Structs, ast.Structs)
	sl("union", fd.Unions, ast.Unions)
	sl("exception", fd.Exceptions, ast.Exceptions)
	for i := 0; i < len(fd.Enums) && i < len(ast.Enums); i++ {
		chk("enum", ast.Enums[i].Name, fd.Enums[i].Comments, ast.Enums[i].ReservedComments)
		for j := 0; j < len(fd.Enums[i].Values) && j < len(ast.Enums[i].Values); j++ {
			chk("enum-value", ast.Enums[i].Values[j].Name, fd.Enums[i].Values[j].Comments, ast.Enums[i].Values[j].ReservedComments)
		}
	}
	for i := 0; i < len(fd.Typedefs) && i < len(ast.Typedefs); i++ {
		chk("typedef", ast.Typedefs[i].Alias, fd.Typedefs[i].Comments, ast.Typedefs[i].ReservedComments)
	}
	for i := 0; i < len(fd.Consts) && i < len(ast.Constants); i++ {
		chk("const", ast.Constants[i].Name, fd.Consts[i].Comments, ast.Constants[i].ReservedComments)
	}
	for i := 0; i < len(fd.Services) && i < len(ast.Services); i++ {
		chk("service", ast.Services[i].Name, fd.Services[i].Comments, ast.Services[i].ReservedComments)
		for j := 0; j < len(fd.Services[i].Methods) && j < len(ast.Services[i].Functions); j++ {
			chk("method", ast.Services[i].Functions[j].Name, fd.Services[i].Methods[j].Comments, ast.Services[i].Functions[j].ReservedComments)
		}
	}
	return bad
}

func c15SiteKey(site string) string {
	site = strings.TrimPrefix(site, ".")
	// nested type expressions and constant values: one key per field of the nested node
	for _, rep := range [][2]string{{".KeyType", ""}, {".ValueType", ""}, {".ValueList[]", ""}, {".ValueMap.map[][]", ""}} {
		site = strings.ReplaceAll(site, rep[0], rep[1])
	}
	return site
}

func c15InProcess(r *vlib.Run, rng *vlib.Rng, dir string, i int, raceSet *[]*parser.Thrift) {
	o := c15Opts(rng, false)
	o.RootRelativeIncludes = i%3 == 2 // includes found through the search path (-i <root>)
	if o.RootRelativeIncludes && o.Files < 3 {
		o.Files = 3
	}
	p := idl.Generate(rng.Fork("p"), o)
	sub := filepath.Join(dir, fmt.Sprintf("p%d", i))
	lay := idl.PlainLayout()
	if i%3 == 1 {
		lay = idl.RandomLayout(rng.Fork("lay"))
	}
	texts, err := harness.WriteProgram(sub, p, lay)
	if err != nil {
		vlib.Fatal("C15", "write: %v", err)
	}
	defer os.RemoveAll(sub)
	root, stage, err := harness.FrontendInc(filepath.Join(sub, "main.thrift"), []string{sub})
	if err != nil {
		r.Inconclusive(fmt.Sprintf("front end rejects a generated program (%s): %v", stage, err))
		return
	}
	if o.RootRelativeIncludes {
		r.Sig("in-process:includes-through-search-path")
	}
	asts, err := harness.MapASTs(p, root)
	if err != nil {
		r.Inconclusive("AST mapping: " + err.Error())
		return
	}
	fpOf := func(f *idl.File) string { return asts[f].Filename }
	c := &c15Ctx{r: r, p: p, fpOf: fpOf, texts: texts, mode: "in-process"}
	for _, f := range p.ReachableFiles() {
		ast := asts[f]
		var fd *tr.FileDescriptor
		if pn := safely(func() { fd = tr.GetFileDescriptor(ast) }); pn != "" {
			c.bad("GetFileDescriptor-panics", pn)
			continue
		}
		r.Eval(1)
		var diffs []c15Diff
		c15Compare(c15Expect(f, fpOf), guest.Canon(fd, "Extra", "Comments"), "", f.Path, &diffs)
		for _, d := range diffs {
			if strings.HasPrefix(d.site, ".Includes") && len(c15DupAlias(f)) > 0 {
				c.bad("descriptor/Includes/"+c15DupKey, fmt.Sprintf("%s @ %s: %s", d.site, d.where, d.detail))
				continue
			}
			c.bad("descriptor/"+c15SiteKey(d.site), fmt.Sprintf("%s @ %s: %s", d.site, d.where, d.detail))
		}
		if len(diffs) == 0 {
			c03ModelSigs(r, f)
		}
		for _, b := range c15Comments(fd, ast) {
			c.bad("descriptor/comments/"+strings.Fields(b)[0], b)
		}
		// encoding a file descriptor and decoding it again is the identity
		var back *tr.FileDescriptor
		var merr error
		if pn := safely(func() {
			var b []byte
			b, merr = fd.Marshal()
			if merr == nil {
				back, merr = tr.Unmarshal(b)
			}
		}); pn != "" {
			c.bad("marshal-roundtrip/panic", pn)
			continue
		}
		r.Eval(1)
		if merr != nil {
			c.bad("marshal-roundtrip/error", merr.Error())
			continue
		}
		diffs = nil
		c15Compare(guest.Canon(fd, "Extra"), guest.Canon(back, "Extra"), "", f.Path, &diffs)
		for _, d := range diffs {
			c.bad("marshal-roundtrip/"+c15SiteKey(d.site), fmt.Sprintf("%s @ %s: %s", d.site, d.where, d.detail))
		}
		if len(diffs) == 0 {
			r.Sig("in-process:marshal-roundtrip-identical")
		}
	}
	// registry and lookups
	var gd *tr.GlobalDescriptor
	if pn := safely(func() { gd, _ = tr.RegisterAST(root) }); pn != "" {
		c.bad("RegisterAST-panics", pn)
		return
	}
	defer tr.ReleaseGlobalDescriptors(gd)
	var fds []*tr.FileDescriptor
	for _, f := range p.ReachableFiles() {
		fd := gd.LookupFD(fpOf(f))
		if fd == nil {
			c.bad("lookup/not-found/file", "RegisterAST did not register "+fpOf(f))
			continue
		}
		fds = append(fds, fd)
	}
	qs, wants, tags := c.lookups()
	res := guest.ReflectAPI(gd, fds, qs)
	// through JSON, as guest answers arrive
	b, _ := json.Marshal(res)
	var generic map[string]interface{}
	json.Unmarshal(b, &generic)
	c.checkAPI(generic, wants, tags)
	if len(*raceSet) < 24 {
		*raceSet = append(*raceSet, root)
	}
}

func C15(r *vlib.Run) {
	r.Rule = "one evaluation = one file descriptor built by thrift_reflection.GetFileDescriptor (in-process) or returned by a generated package's GetFileDescriptorFor* (guest) compared field by field with the descriptor computed from the IDL model; one Marshal/Unmarshal round trip compared for identity; one lookup, type-expression resolution, service parent / inherited-method query, or Go-type <-> descriptor mapping compared with the model; distinct = grammar-element signatures of the compared files plus (mode, API, definition kind, local/foreign) signatures"
	r.Assume("comments are compared with the comments the parser attached to the AST (the model carries none); file paths are compared for consistency (every nested Filepath equals the file's, include values equal the included file's Filepath), not for a particular spelling")
	r.Assume("typedefs are Go aliases, so only struct-likes and enums are checked for the Go type <-> descriptor mapping")
	dir := vlib.ScratchBase("vf-c15-")
	defer os.RemoveAll(dir)
	rng := vlib.NewRng(r.Seed, "c15")
	var raceSet []*parser.Thrift
	n := r.N(400, 6000)
	for i := 0; i < n; i++ {
		c15InProcess(r, rng, dir, i, &raceSet)
	}
	// registry lock discipline under the race detector (thorough builds vf with -race)
	var wg sync.WaitGroup
	for g := 0; g < 16; g++ {
		wg.Add(1)
		go func(g int) {
			defer wg.Done()
			for k := 0; k < 40 && len(raceSet) > 0; k++ {
				ast := raceSet[(g+k)%len(raceSet)]
				gd, fd := tr.RegisterAST(ast)
				for _, s := range fd.Structs {
					for _, f := range s.Fields {
						f.Type.IsStruct()
						f.Type.IsEnum()
					}
				}
				tr.ReleaseGlobalDescriptors(gd)
			}
		}(g)
	}
	wg.Wait()
	r.Sig("concurrent-register-release")
	for _, rep := range vlib.ReadRaceLogs(filepath.Join(os.Getenv("VERIF_BIN"), "race.log")) {
		if rep.InRepo {
			r.Violation("C15/data-race/"+rep.Key, "race detector report:\n"+vlib.Trunc(rep.Text, 3000), nil)
		}
	}

	// ---- generated code ----
	s, err := harness.NewScratch("c15")
	if err != nil {
		vlib.Fatal("C15", "scratch: %v", err)
	}
	defer s.Close()
	var units []*harness.Unit
	ks := idl.KitchenSinks()
	nu := r.N(14, 150)
	for i := 0; i < nu; i++ {
		var p *idl.Program
		if i < 2 {
			p = ks[i]
		} else {
			p = idl.Generate(rng.Fork("g"), c15Opts(rng, true))
		}
		opts := []string{"with_reflection"}
		if i%4 == 3 {
			opts = append(opts, "naming_style=apache")
		}
		units = append(units, &harness.Unit{Name: fmt.Sprintf("u%04d", i), Prog: p, Backend: "go", Opts: opts, Recurse: true, WantRefl: true})
	}
	ok := buildUnits(r, "C15", s, units)
	for _, u := range ok {
		c15Guest(r, u)
	}
	r.Require("generated:go-type-mapping:struct", "generated:go-type-mapping:enum", "generated:descriptor-matches-model", "in-process:marshal-roundtrip-identical")
}

func c15Guest(r *vlib.Run, u *harness.Unit) {
	p := u.Prog
	tm, err := describe(u)
	if err != nil {
		r.Inconclusive(u.Name + ": " + err.Error())
		return
	}
	// file paths as the generated code knows them: from the descriptors themselves
	res0, fatal, _, stderr := u.RunGuest("reflect0", []map[string]interface{}{{"op": "reflect"}})
	c := &c15Ctx{r: r, p: p, texts: u.Texts, mode: "generated"}
	if fatal != "" || res0[0] == nil {
		c.bad("guest-died/"+fatal, "the guest died while dumping descriptors: "+vlib.Trunc(stderr, 800))
		return
	}
	if pr := guestProblem(res0[0]); pr != "" {
		c.bad("reflect-op-fails", pr)
		return
	}
	files, _ := res0[0]["files"].(map[string]interface{})
	fdOf := map[*idl.File]map[string]interface{}{}
	fpath := map[*idl.File]string{}
	for _, f := range p.ReachableFiles() {
		r.Eval(1)
		var cands []map[string]interface{}
		for k, v := range files {
			m, _ := v.(map[string]interface{})
			if m == nil {
				continue
			}
			fp, _ := m["Filepath"].(string)
			if strings.HasPrefix(k, pkgDir(f)+".") && (fp == f.Path || strings.HasSuffix(fp, "/"+f.Path)) {
				cands = append(cands, m)
			}
		}
		if len(cands) != 1 {
			c.bad("file-descriptor-not-obtainable", fmt.Sprintf("%d GetFileDescriptorFor* functions of package %s return the descriptor of %s", len(cands), pkgDir(f), f.Path))
			continue
		}
		fdOf[f] = cands[0]
		fpath[f], _ = cands[0]["Filepath"].(string)
	}
	c.fpOf = func(f *idl.File) string { return fpath[f] }
	for _, f := range p.ReachableFiles() {
		got := fdOf[f]
		if got == nil {
			continue
		}
		delete(got, "Comments")
		want := c15Expect(f, c.fpOf)
		var diffs []c15Diff
		c15Compare(want, c15StripComments(got), "", f.Path, &diffs)
		for _, d := range diffs {
			if strings.HasPrefix(d.site, ".Includes") && len(c15DupAlias(f)) > 0 {
				c.bad("descriptor/Includes/"+c15DupKey, fmt.Sprintf("%s @ %s: %s", d.site, d.where, d.detail))
				continue
			}
			c.bad("descriptor/"+c15SiteKey(d.site), fmt.Sprintf("%s @ %s: %s", d.site, d.where, d.detail))
		}
		if len(diffs) == 0 {
			r.Sig("generated:descriptor-matches-model")
			c03ModelSigs(r, f)
		}
	}
	// Go types <-> descriptors
	keyDef := map[string]*idl.Def{}
	for d, k := range tm.key {
		if !tm.synth[d] {
			keyDef[k] = d
		}
	}
	sts, _ := res0[0]["structs"].([]interface{})
	claimed := map[*idl.Def]int{}
	for _, x := range sts {
		m, _ := x.(map[string]interface{})
		k, _ := m["key"].(string)
		d := keyDef[k]
		if d == nil || m["nodesc"] == true {
			continue
		}
		r.Eval(1)
		if pn, _ := m["panic"].(string); pn != "" {
			c.bad("go-type-mapping/panic/"+d.Kind.String(), fmt.Sprintf("%s: %s", k, pn))
			continue
		}
		dn, df, has := pairOf(m["desc"])
		bn, bf, hasBy := pairOf(m["bygotype"])
		tn, tf, hasT := pairOf(m["tdesc"])
		wantF := c.fpOf(d.File)
		switch {
		case !has:
			c.bad("go-type-mapping/GetDescriptor-nil/"+d.Kind.String(), fmt.Sprintf("(*%s).GetDescriptor() returns nil; it must describe %s %s of %s", k, d.Kind, d.Name, wantF))
		case dn != d.Name || df != wantF:
			c.bad("go-type-mapping/GetDescriptor-wrong/"+d.Kind.String(), fmt.Sprintf("(*%s).GetDescriptor() describes %s of %s, want %s of %s", k, dn, df, d.Name, wantF))
		case !hasBy || bn != d.Name || bf != wantF || m["same"] != true:
			c.bad("go-type-mapping/by-go-type-wrong/"+d.Kind.String(), fmt.Sprintf("GetStructDescriptorByGoType(%s) gives %v (same object: %v), want %s of %s", k, m["bygotype"], m["same"], d.Name, wantF))
		case m["gotype_back"] != true:
			c.bad("go-type-mapping/descriptor-to-go-type-wrong/"+d.Kind.String(), fmt.Sprintf("the descriptor of %s does not map back to Go type %s", d.Name, k))
		case !hasT || tn != d.Name || tf != wantF:
			c.bad("go-type-mapping/GetTypeDescriptor-wrong/"+d.Kind.String(), fmt.Sprintf("(*%s).GetTypeDescriptor() gives %v, want %s of %s", k, m["tdesc"], d.Name, wantF))
		default:
			claimed[d]++
			r.Sig("generated:go-type-mapping:" + d.Kind.String())
		}
	}
	ens, _ := res0[0]["enums"].([]interface{})
	enumClaims := map[string][]string{}
	for _, x := range ens {
		m, _ := x.(map[string]interface{})
		k, _ := m["key"].(string)
		r.Eval(1)
		if pn, _ := m["panic"].(string); pn != "" {
			c.bad("go-type-mapping/panic/enum", fmt.Sprintf("%s: %s", k, pn))
			continue
		}
		dn, df, has := pairOf(m["desc"])
		if !has {
			c.bad("go-type-mapping/GetDescriptor-nil/enum", fmt.Sprintf("%s.GetDescriptor() returns nil", k))
			continue
		}
		// the descriptor must be an enum of the file(s) this package is generated from
		var d *idl.Def
		for _, f := range p.ReachableFiles() {
			if c.fpOf(f) == df && strings.HasPrefix(k, pkgDir(f)+".") {
				if x := f.Find(dn); x != nil && x.Kind == idl.KEnum {
					d = x
				}
			}
		}
		if d == nil {
			c.bad("go-type-mapping/GetDescriptor-wrong/enum", fmt.Sprintf("%s.GetDescriptor() describes %s of %s, which is no enum of this package", k, dn, df))
			continue
		}
		if bn, bf, ok := pairOf(m["bygotype"]); !ok || bn != dn || bf != df || m["same"] != true {
			c.bad("go-type-mapping/by-go-type-wrong/enum", fmt.Sprintf("GetEnumDescriptorByGoType(%s) gives %v (same object: %v), want %s of %s", k, m["bygotype"], m["same"], dn, df))
			continue
		}
		if m["gotype_back"] != true {
			c.bad("go-type-mapping/descriptor-to-go-type-wrong/enum", fmt.Sprintf("the descriptor of enum %s does not map back to Go type %s", dn, k))
			continue
		}
		enumClaims[df+"\x00"+dn] = append(enumClaims[df+"\x00"+dn], k)
		r.Sig("generated:go-type-mapping:enum")
	}
	for _, f := range p.ReachableFiles() {
		for _, d := range f.Defs {
			switch {
			case d.Kind == idl.KEnum:
				r.Eval(1)
				if n := len(enumClaims[c.fpOf(f)+"\x00"+d.Name]); n != 1 {
					c.bad("go-type-mapping/enum-claimed-by-n-go-types", fmt.Sprintf("enum %s of %s is the descriptor of %d Go types %v, want exactly one", d.Name, f.Path, n, enumClaims[c.fpOf(f)+"\x00"+d.Name]))
				}
			case d.Kind.IsStructLike() && tm.key[d] != "":
				r.Eval(1)
				if claimed[d] == 0 {
					// reported above unless the type has no GetDescriptor at all
					found := false
					for _, x := range sts {
						m, _ := x.(map[string]interface{})
						if m["key"] == tm.key[d] && m["nodesc"] != true {
							found = true
						}
					}
					if !found {
						c.bad("go-type-mapping/no-GetDescriptor-method/"+d.Kind.String(), fmt.Sprintf("Go type %s of %s %s has no GetDescriptor method", tm.key[d], d.Kind, d.Name))
					}
				}
			}
		}
	}
	// API
	qs, wants, tags := c.lookups()
	res, fatal, _, stderr := u.RunGuest("reflect1", []map[string]interface{}{{"op": "reflect", "lookups": qs}})
	if fatal != "" || res[0] == nil {
		c.bad("guest-died/"+fatal, "the guest died during lookups: "+vlib.Trunc(stderr, 800))
		return
	}
	c.checkAPI(res[0], wants, tags)
}

// c15StripComments removes every "Comments" entry of a canonical descriptor.
func c15StripComments(v interface{}) interface{} {
	switch x := v.(type) {
	case map[string]interface{}:
		out := map[string]interface{}{}
		for k, e := range x {
			if k == "Comments" {
				continue
			}
			out[k] = c15StripComments(e)
		}
		return out
	case []interface{}:
		out := make([]interface{}, len(x))
		for i, e := range x {
			out[i] = c15StripComments(e)
		}
		return out
	}
	return v
}
