package props

// C10 — fastgo codec agrees with the standard codec and BLength is exact.

import (
	"sort"
	"fmt"
	"strings"

	"verif/harness"
	"verif/idl"
	"verif/refcodec"
	"verif/vlib"
)

func c10Opts(rng *vlib.Rng) idl.GenOpts {
	o := idl.DefaultOpts()
	o.Files = rng.Range(1, 3)
	o.Structs = rng.Range(3, 5)
	o.FieldsMax = 9
	o.MaxDepth = 4
	o.NameStress = rng.Intn(2)
	o.Annotations = 0
	o.UnionDefault = false
	o.SameNS = false // fastgo: two IDL files in one package do not compile (known finding of C01)
	o.Services = rng.Chance(1, 2)
	return o
}

type c10Case struct {
	kind   string // write | read | trunc | typebyte | perturb
	def    *idl.Def
	val    *idl.Val
	sent   []byte
	expect *idl.Val
	info   string
}

func C10(r *vlib.Run) {
	r.Rule = "for every struct-like type of fastgo-generated programs: one evaluation = one comparison of FastAppend/FastWrite/BLength with the reference decoder and the standard Write, of FastRead with the standard Read on reference encodings and on encodings with unknown/mistyped/missing-required fields, or one FastRead of a truncation (quick: every field boundary -1/0/+1 and sampled offsets; thorough: every byte) or of a single type byte (field header, element, key, value) set to each of the 17 codes 0..16; distinct = (kind, struct kind, field shape) signatures and corruption classes observed"
	s, err := harness.NewScratch("c10")
	if err != nil {
		vlib.Fatal("C10", "scratch: %v", err)
	}
	defer s.Close()
	s.Race = r.Thorough() // checkptr for the unsafe bool fast path
	rng := vlib.NewRng(r.Seed, "c10")
	var units []*harness.Unit
	n := 0
	add := func(p *idl.Program, opts []string) {
		n++
		units = append(units, &harness.Unit{Name: fmt.Sprintf("u%04d", n), Prog: p, Backend: "fastgo", Opts: opts, Recurse: true})
	}
	for _, p := range idl.KitchenSinks() {
		if !idl.SharesPackage(p) {
			add(p, nil)
		}
	}
	np := r.N(14, 160)
	for i := 0; i < np; i++ {
		p := idl.Generate(rng.Fork("p"), c10Opts(rng))
		if i%2 == 0 {
			// structs whose number of required fields sits at and around the word sizes of the "is set" bookkeeping
			wide := []int{8, 9, 16, 17, 24, 32, 33, 64, 65, 7, 15, 40}
			idl.AddWideRequired(p, wide[(i/2)%len(wide)], rng.Intn)
		}
		var opts []string
		switch i % 4 {
		case 1:
			opts = []string{"keep_unknown_fields"}
		case 2:
			opts = []string{"naming_style=golint", "gen_setter"}
		}
		add(p, opts)
	}
	ok := buildUnits(r, "C10", s, units)
	for _, u := range ok {
		tm, err := describe(u)
		if err != nil {
			r.Inconclusive(u.Name + ": " + err.Error())
			continue
		}
		c10Unit(r, rng.Fork(u.Name), u, tm)
	}
	r.Require("perturb/required-fields/(full-block)", "perturb/required-fields/(last8)", "perturb/required-fields/(all)", "perturb/field/(required)")
}

func c10Unit(r *vlib.Run, rng *vlib.Rng, u *harness.Unit, tm *typeMap) {
	cfg := optKey(u.Opts)
	var cmds []map[string]interface{}
	var cases []c10Case
	push := func(cmd map[string]interface{}, c c10Case) {
		cmds = append(cmds, cmd)
		cases = append(cases, c)
	}
	nvals := r.N(4, 8)
	for _, d := range tm.defs {
		key := tm.key[d]
		// objects a caller can build without the constructor: the zero struct, and zero structs
		// with a few fields set (nil struct pointers in serialised positions)
		push(map[string]interface{}{"op": "fastwrite", "type": key, "zero": true}, c10Case{kind: "write-zero", def: d, info: "zero object"})
		for k := 0; k < 2; k++ {
			g := &idl.ValueGen{Rng: rng.Fork("z" + d.Name), MaxDepth: 2, Mode: 0}
			v := g.GenStruct(d, 0)
			part := &idl.Val{Cat: "struct", Def: d, F: map[int32]*idl.Val{}}
			for id, x := range v.F {
				if rng.Bool() {
					part.F[id] = x
				}
			}
			jv := harness.ToJV(part)
			push(map[string]interface{}{"op": "fastwrite", "type": key, "zero": true, "val": jv}, c10Case{kind: "write-zero", def: d, val: part, info: "zero object with some fields set"})
		}
		for k := 0; k < nvals; k++ {
			g := &idl.ValueGen{Rng: rng.Fork(d.Name), MaxDepth: 3, Mode: []int{0, 2, 1, 0}[k%4]}
			v := g.GenStruct(d, 0)
			norm := idl.NormalizeWire(v)
			push(map[string]interface{}{"op": "fastwrite", "type": key, "val": harness.ToJV(v)}, c10Case{kind: "write", def: d, val: v, expect: norm})
			enc, marks, tbs := refcodec.EncodeStructTB(d, norm)
			push(map[string]interface{}{"op": "fastread", "type": key, "bytes": hexOf(enc), "compare_std": true}, c10Case{kind: "read", def: d, val: v, sent: enc, expect: norm})
			if k >= 2 {
				continue
			}
			// well-formed perturbations: FastRead must behave like Read
			for bi := 0; bi < 2; bi++ {
				off, dd := len(enc)-1, d
				if len(marks) > 0 && bi > 0 {
					m := marks[rng.Intn(len(marks))]
					off, dd = m.Start, m.Def
				}
				tt := refcodec.AllTypes[rng.Intn(len(refcodec.AllTypes))]
				b := refcodec.Insert(enc, off, refcodec.FieldBytes(tt, refcodec.UnusedID(dd, rng.Intn(13)), bi))
				push(map[string]interface{}{"op": "fastread", "type": key, "bytes": hexOf(b), "compare_std": true}, c10Case{kind: "perturb", def: d, val: v, sent: b, info: fmt.Sprintf("unknown field of wire type %d at offset %d", tt, off)})
			}
			for _, m := range marks {
				if m.Depth != 0 || !rng.Chance(1, 2) {
					continue
				}
				f := d.FieldByID(m.ID)
				tt := refcodec.AllTypes[rng.Intn(len(refcodec.AllTypes))]
				if tt == refcodec.TypeOf(f.Type) {
					b := refcodec.Cut(enc, m.Start, m.End)
					push(map[string]interface{}{"op": "fastread", "type": key, "bytes": hexOf(b), "compare_std": true}, c10Case{kind: "perturb", def: d, val: v, sent: b, info: fmt.Sprintf("field %s deleted (%s)", f.Name, d.EffReq(f))})
					continue
				}
				b := refcodec.Insert(refcodec.Cut(enc, m.Start, m.End), m.Start, refcodec.FieldBytes(tt, int16(m.ID), 1))
				push(map[string]interface{}{"op": "fastread", "type": key, "bytes": hexOf(b), "compare_std": true}, c10Case{kind: "perturb", def: d, val: v, sent: b, info: fmt.Sprintf("field %s retagged to wire type %d (%s)", f.Name, tt, d.EffReq(f))})
			}
			// several required fields missing at once: by block of eight (in declaration order of the required
			// fields), the first / last eight, all of them, a random subset
			var reqMarks []refcodec.FieldMark
			for _, m := range marks {
				if m.Depth == 0 && d.EffReq(d.FieldByID(m.ID)) == idl.ReqRequired {
					reqMarks = append(reqMarks, m)
				}
			}
			if nr := len(reqMarks); nr >= 2 {
				sets := map[string][]int{}
				for b0 := 0; b0 < nr; b0 += 8 {
					var idx []int
					for j := b0; j < b0+8 && j < nr; j++ {
						idx = append(idx, j)
					}
					sets[fmt.Sprintf("block%d", b0/8)] = idx
				}
				var all, last8, sub []int
				for j := 0; j < nr; j++ {
					all = append(all, j)
					if j >= nr-8 {
						last8 = append(last8, j)
					}
					if rng.Bool() {
						sub = append(sub, j)
					}
				}
				sets["all"], sets["last8"], sets["subset"] = all, last8, sub
				names := make([]string, 0, len(sets))
				for nme := range sets {
					names = append(names, nme)
				}
				sort.Strings(names)
				for _, nme := range names {
					idx := sets[nme]
					if len(idx) == 0 {
						continue
					}
					b := enc
					for j := len(idx) - 1; j >= 0; j-- { // back to front: earlier offsets stay valid
						b = refcodec.Cut(b, reqMarks[idx[j]].Start, reqMarks[idx[j]].End)
					}
					cls := nme
					if strings.HasPrefix(nme, "block") {
						cls = "block"
						if len(idx) == 8 {
							cls = "full-block"
						}
					}
					push(map[string]interface{}{"op": "fastread", "type": key, "bytes": hexOf(b), "compare_std": true}, c10Case{kind: "perturb", def: d, val: v, sent: b, info: fmt.Sprintf("required-fields deleted: %s of %d (%s)", nme, nr, cls)})
				}
			}
			// truncations
			cut := map[int]bool{}
			if r.Thorough() {
				for i := 0; i < len(enc); i++ {
					cut[i] = true
				}
			} else {
				for _, m := range marks {
					for _, o := range []int{m.Start - 1, m.Start, m.Start + 1, m.Start + 3, m.End - 1} {
						if o >= 0 && o < len(enc) {
							cut[o] = true
						}
					}
				}
				for i := 0; i < 6 && len(enc) > 1; i++ {
					cut[rng.Intn(len(enc))] = true
				}
				cut[0] = true
				cut[len(enc)-1] = true
			}
			for o := range cut {
				push(map[string]interface{}{"op": "fastread", "type": key, "bytes": hexOf(enc[:o])}, c10Case{kind: "trunc", def: d, val: v, sent: enc[:o], info: fmt.Sprintf("truncated to %d of %d bytes", o, len(enc))})
			}
			// single type-byte corruptions
			for _, o := range tbs {
				if !r.Thorough() && len(tbs) > 12 && !rng.Chance(12, len(tbs)) {
					continue
				}
				for code := 0; code <= 16; code++ {
					if byte(code) == enc[o] {
						continue
					}
					b := append([]byte{}, enc...)
					b[o] = byte(code)
					push(map[string]interface{}{"op": "fastread", "type": key, "bytes": hexOf(b)}, c10Case{kind: "typebyte", def: d, val: v, sent: b, info: fmt.Sprintf("type byte at offset %d changed from %d to %d", o, enc[o], code)})
				}
			}
		}
	}
	if len(cmds) == 0 {
		return
	}
	res, fatal, last, stderr := u.RunGuest("c10", cmds)
	replay := func(c c10Case) vlib.Replay { return c02Replay(u, c02Case{def: c.def, val: c.val, sent: c.sent}) }
	ctx := func(c c10Case) string { return c02Context(u, c02Case{def: c.def, val: c.val, sent: c.sent}) }
	if fatal != "" {
		c := c10Case{}
		if last >= 0 && last < len(cases) {
			c = cases[last]
		}
		if fatal == "timeout" {
			r.Inconclusive(fmt.Sprintf("unit %s guest watchdog at command %d", u.Name, last))
		} else {
			r.Violation("C10/process-death/"+c.kind+"/"+fatal, fmt.Sprintf("config [%s]: the guest died (%s) during %s %s: %s\n%s", cfg, fatal, c.kind, c.info, vlib.Trunc(stderr, 1200), ctx(c)), replay(c))
		}
	}
	for i, c := range cases {
		gr := res[i]
		if gr == nil {
			continue
		}
		if p := guestProblem(gr); p != "" {
			r.Count("harness_problems", 1)
			if r.Counter("harness_problems") <= 5 {
				fmt.Printf("NOTE property=C10 unit %s %s: harness problem: %s\n", u.Name, c.kind, p)
			}
			continue
		}
		bad := func(k, f string, a ...interface{}) {
			r.Violation("C10/"+c.kind+"/"+k, fmt.Sprintf("config [%s] type %s: %s: ", cfg, c.def.Name, c.info)+fmt.Sprintf(f, a...)+"\n"+ctx(c), replay(c))
		}
		r.Eval(1)
		if pn := strOf(gr["panic"]); pn != "" {
			bad("panic", "panic outside the fast codec: %s %s", pn, vlib.Trunc(strOf(gr["stack"]), 600))
			continue
		}
		switch c.kind {
		case "write-zero":
			// internal consistency only: what value a half-built object denotes is not asserted
			app := unhex(gr["append"])
			bl, _ := gr["blength"].(float64)
			if pn := strOf(gr["fastwrite_panic"]); pn != "" {
				bad("fastwrite-panic", "FastWrite into a BLength()-sized buffer panicked: %s (BLength=%d, FastAppend wrote %d bytes)", pn, int(bl), len(app))
			}
			if int(bl) != len(app) {
				bad("blength", "BLength()=%d but FastAppend wrote %d bytes", int(bl), len(app))
			}
			if err := refcodec.WellFormed(app); err != nil {
				bad("malformed", "FastAppend output is not a well-formed struct: %v", err)
			}
			r.Sigf("write-zero/%s", c.def.Kind)
		case "write":
			app := unhex(gr["append"])
			bl, _ := gr["blength"].(float64)
			if pn := strOf(gr["fastwrite_panic"]); pn != "" {
				bad("fastwrite-panic", "FastWrite into a BLength()-sized buffer panicked: %s (BLength=%d, FastAppend wrote %d bytes)", pn, int(bl), len(app))
			}
			if int(bl) != len(app) {
				bad("blength", "BLength()=%d but FastAppend wrote %d bytes", int(bl), len(app))
			}
			if fw, ok := gr["fastwrite"]; ok && strOf(fw) != strOf(gr["append"]) {
				// map iteration order may differ between the two calls: compare the decoded values
				d1, e1 := refcodec.DecodeStruct(c.def, unhex(fw))
				d2, e2 := refcodec.DecodeStruct(c.def, app)
				if e1 != nil || e2 != nil || !idl.EqualWire(d1, d2) || len(unhex(fw)) != len(app) {
					bad("fastwrite-differs", "FastWrite and FastAppend encode different values (%v / %v)", e1, e2)
				}
			}
			if err := refcodec.WellFormed(app); err != nil {
				bad("malformed", "FastAppend output is not a well-formed struct: %v", err)
				continue
			}
			dec, err := refcodec.DecodeStruct(c.def, app)
			if err != nil {
				bad("undecodable/"+decodeKind(err), "reference decoder rejects FastAppend output: %v", err)
				continue
			}
			if !idl.EqualWire(dec, c.expect) {
				bad("value/"+diffSite(c.def, c.expect, dec), "FastAppend output decodes to another value\n want %s\n  got %s", c.expect.Canon(), dec.Canon())
				continue
			}
			if strOf(gr["std_err"]) == "" {
				if sd, err := refcodec.DecodeStruct(c.def, unhex(gr["std"])); err == nil && !idl.EqualWire(sd, dec) {
					bad("differs-from-standard-write", "standard Write and FastAppend encode different values")
				}
			}
			for _, f := range c.def.Fields {
				r.Sig(fieldSig(c.def, f, "fastwrite"))
			}
		case "read", "perturb":
			if pn := strOf(gr["fast_panic"]); pn != "" {
				bad("panic", "FastRead panicked on a well-formed encoding: %s\n%s", pn, vlib.Trunc(strOf(gr["fast_stack"]), 700))
				continue
			}
			fe, se := strOf(gr["fast_err"]), strOf(gr["std_err"])
			if (fe == "") != (se == "") {
				bad("error-disagrees", "FastRead error=%q, standard Read error=%q", fe, se)
				continue
			}
			if cn := strOf(gr["canary"]); cn != "" {
				bad("memory", "%s", cn)
			}
			if fe == "" {
				typ := &idl.Type{Name: c.def.Name, Ref: c.def}
				fv, err1 := harness.FromJV(gr["fast_val"], typ)
				sv, err2 := harness.FromJV(gr["std_val"], typ)
				if err1 != nil || err2 != nil {
					bad("dump", "cannot interpret dumps: %v %v", err1, err2)
					continue
				}
				// nil vs empty containers are the same value (C3.8)
				if harness.DeepCanon(fv) != harness.DeepCanon(sv) {
					bad("object/"+diffSite(c.def, sv, fv), "FastRead and standard Read give different objects\n std  %s\n fast %s", sv.Canon(), fv.Canon())
					continue
				}
				if off, _ := gr["fast_off"].(float64); int(off) != len(c.sent) {
					bad("offset", "FastRead consumed %d of %d bytes", int(off), len(c.sent))
				}
				if c.kind == "read" {
					exp := harness.ObjState(c.expect)
					obs := harness.ObjState(fv)
					if exp.Canon() != obs.Canon() {
						bad("value/"+diffSite(c.def, exp, obs), "object after FastRead differs from the model\n want %s\n  got %s", exp.Canon(), obs.Canon())
					}
					for _, f := range c.def.Fields {
						r.Sig(fieldSig(c.def, f, "fastread"))
					}
				}
			}
			if c.kind == "perturb" {
				r.Sig("perturb/" + strings.Fields(c.info)[0] + "/" + c.info[strings.LastIndex(c.info, " ")+1:])
			}
		case "trunc":
			if pn := strOf(gr["fast_panic"]); pn != "" {
				bad("panic/"+panicSite(strOf(gr["fast_stack"]))+"/"+panicKind(pn), "FastRead panicked: %s\n%s", pn, vlib.Trunc(strOf(gr["fast_stack"]), 700))
				continue
			}
			if strOf(gr["fast_err"]) == "" {
				bad("accepted", "FastRead accepted a strict prefix of a valid encoding without error")
			}
			if cn := strOf(gr["canary"]); cn != "" {
				bad("memory", "%s", cn)
			}
			r.Sigf("trunc/%s/in-field-of-type-%s", c.def.Kind, c10FieldAt(c))
		case "typebyte":
			if pn := strOf(gr["fast_panic"]); pn != "" {
				bad("panic/"+panicSite(strOf(gr["fast_stack"]))+"/"+panicKind(pn), "FastRead panicked: %s\n%s", pn, vlib.Trunc(strOf(gr["fast_stack"]), 700))
				continue
			}
			if cn := strOf(gr["canary"]); cn != "" {
				bad("memory", "%s", cn)
			}
			w := strings.Fields(c.info)
			r.Sigf("typebyte/from-%s-to-%s", w[len(w)-3], w[len(w)-1])
		}
		if i%2003 == 0 {
			r.Sample(map[string]interface{}{"kind": c.kind, "type": c.def.Name, "info": c.info, "bytes": vlib.Trunc(hexOf(c.sent), 160)})
		}
	}
}

func c10FieldAt(c c10Case) string {
	enc, marks := refEncode(c.def, idl.NormalizeWire(c.val))
	_ = enc
	for _, m := range marks {
		if m.Depth == 0 && len(c.sent) >= m.Start && len(c.sent) < m.End {
			if f := c.def.FieldByID(m.ID); f != nil {
				return f.Type.Shape(0)
			}
		}
	}
	return "stop"
}

// panicSite names where a panic was raised: the first frame after panic() that is not the Go
// runtime — the runtime library (gopkg) function, or "generated-code".
func panicSite(stack string) string {
	lines := strings.Split(stack, "\n")
	after := false
	for _, l := range lines {
		if strings.HasPrefix(l, "panic(") {
			after = true
			continue
		}
		if !after || strings.HasPrefix(l, "\t") || strings.HasPrefix(l, " ") {
			continue
		}
		if strings.HasPrefix(l, "runtime.") {
			continue
		}
		if strings.HasPrefix(l, "github.com/cloudwego/gopkg/") {
			fn := l[strings.LastIndex(l, "/")+1:]
			if i := strings.Index(fn, "("); i > 0 {
				fn = fn[:i]
			}
			return "gopkg." + fn
		}
		if strings.HasPrefix(l, "scratch/") {
			return "generated-code"
		}
		return "other"
	}
	return "unknown"
}
