package props

// C16 — Trimming keeps exactly what kept services need.

import (
	"fmt"
	"os"
	"path/filepath"
	"sort"
	"strings"
	"time"

	"github.com/cloudwego/thriftgo/parser"
	"github.com/cloudwego/thriftgo/tool/trimmer/dump"
	"github.com/cloudwego/thriftgo/tool/trimmer/trim"

	"verif/harness"
	"verif/idl"
	"verif/vlib"
)

func c16Opts(rng *vlib.Rng) idl.GenOpts {
	o := idl.DefaultOpts()
	o.Files = rng.Range(1, 4)
	o.Structs = rng.Range(2, 6)
	o.Preserve = true
	o.TypedefChains = rng.Bool()
	o.MoreServices = rng.Bool()
	o.Sparse = rng.Chance(1, 3)
	o.Annotations = 0
	o.NameStress = 0
	if rng.Chance(1, 3) {
		o.NameStress = 1 // snake_case names: match_go_name has something to convert
	}
	o.UnionDefault = false
	return o
}

// c16Args draws trimmer arguments for a program.
func c16Args(rng *vlib.Rng, p *idl.Program) idl.TrimArgs {
	var a idl.TrimArgs
	type fq struct{ svc, fn string }
	var own, inherited []fq
	var svcs []*idl.Def
	for _, s := range p.Main().DefsOf(idl.KService) {
		svcs = append(svcs, s)
		for _, fn := range s.Funcs {
			own = append(own, fq{s.Name, fn.Name})
		}
		for b := s.Extends; b != nil; b = b.Extends {
			for _, fn := range b.Funcs {
				inherited = append(inherited, fq{s.Name, fn.Name}, fq{b.Name, fn.Name})
			}
		}
	}
	a.MatchGoName = rng.Chance(1, 4)
	if len(own)+len(inherited) > 0 && rng.Chance(3, 5) {
		all := append(append([]fq{}, own...), inherited...)
		n := rng.Range(1, 3)
		for i := 0; i < n; i++ {
			q := all[rng.Intn(len(all))]
			if a.MatchGoName && rng.Chance(4, 5) {
				// patterns are written the way the option documents them: against Go-converted method names
				// (one in five keeps the raw IDL name, which then selects only what already is a Go name)
				q.fn = idl.GoNameOf(q.fn)
			}
			switch rng.Intn(8) {
			case 0: // unqualified name: belongs to the last service of the main file
				a.Methods = append(a.Methods, q.fn)
			case 1: // every method of one service
				a.Methods = append(a.Methods, q.svc+`\..*`)
			case 2: // alternation
				q2 := all[rng.Intn(len(all))]
				a.Methods = append(a.Methods, q.svc+`\.(`+q.fn+`|`+q2.fn+`)`)
			case 3: // a name that exists nowhere
				a.Methods = append(a.Methods, q.svc+".noSuchMethod")
			case 4: // anchored
				a.Methods = append(a.Methods, `^`+q.svc+`\.`+q.fn+`$`)
			default:
				a.Methods = append(a.Methods, q.svc+"."+q.fn)
			}
		}
	}
	switch rng.Intn(6) {
	case 0:
		a.NoPreserve = true
	case 1:
		a.NoPreserveComment = true
	}
	if rng.Chance(1, 3) {
		sl := p.AllStructLikes()
		for i := 0; i < 2 && len(sl) > 0; i++ {
			n := sl[rng.Intn(len(sl))].Name
			if a.MatchGoName && rng.Chance(4, 5) {
				n = idl.GoNameOf(n)
			}
			a.PreserveNames = append(a.PreserveNames, n)
		}
	}
	if fs := p.ReachableFiles(); rng.Chance(1, 4) {
		a.PreserveFiles = append(a.PreserveFiles, fs[rng.Intn(len(fs))].Path)
	}
	return a
}

func c16ArgString(a idl.TrimArgs) string {
	return fmt.Sprintf("methods=%q preserve=%v preserve_comment=%v preserved_structs=%q match_go_name=%v preserved_files=%q", a.Methods, !a.NoPreserve, !a.NoPreserveComment, a.PreserveNames, a.MatchGoName, a.PreserveFiles)
}

// c16Trim runs the real trimmer in-process on the program written under dir.
func c16Trim(mainPath string, a idl.TrimArgs) (root *parser.Thrift, feErr, err error) {
	root, stage, err := harness.Frontend(mainPath)
	if err != nil {
		return nil, fmt.Errorf("front end (%s): %v", stage, err), nil
	}
	arg := &trim.TrimASTArg{Ast: root, TrimMethods: append([]string{}, a.Methods...), PreserveStructs: a.PreserveNames}
	if a.NoPreserve {
		f := false
		arg.Preserve = &f
	}
	if a.NoPreserveComment {
		t := true
		arg.DisablePreserveComment = &t
	}
	if a.MatchGoName {
		t := true
		arg.MatchGoName = &t
	}
	for _, pf := range a.PreserveFiles {
		arg.PreservedFiles = append(arg.PreservedFiles, filepath.Join(filepath.Dir(mainPath), pf))
	}
	// the library prints warnings on stdout
	saved := os.Stdout
	if null, e := os.OpenFile(os.DevNull, os.O_WRONLY, 0); e == nil {
		os.Stdout = null
		defer func() { os.Stdout = saved; null.Close() }()
	}
	var terr error
	if pn := safely(func() { _, terr = trim.TrimAST(arg) }); pn != "" {
		return root, nil, fmt.Errorf("PANIC: %s", pn)
	}
	return root, nil, terr
}

// c16DumpSet writes every file reachable from root.
func c16DumpSet(root *parser.Thrift, base string) (map[string]string, error) {
	out := map[string]string{}
	seen := map[*parser.Thrift]bool{}
	var walk func(a *parser.Thrift) error
	walk = func(a *parser.Thrift) error {
		if a == nil || seen[a] {
			return nil
		}
		seen[a] = true
		var txt string
		var err error
		if pn := safely(func() { txt, err = dump.DumpIDL(a) }); pn != "" {
			return fmt.Errorf("PANIC in DumpIDL: %s", pn)
		}
		if err != nil {
			return err
		}
		rel := c16Rel(base, a.Filename)
		out[rel] = txt
		for _, inc := range a.Includes {
			if err := walk(inc.Reference); err != nil {
				return err
			}
		}
		return nil
	}
	return out, walk(root)
}

func c16Names(a *parser.Thrift, k idl.DefKind) map[string]bool {
	out := map[string]bool{}
	switch k {
	case idl.KStruct:
		for _, s := range a.Structs {
			out[s.Name] = true
		}
	case idl.KUnion:
		for _, s := range a.Unions {
			out[s.Name] = true
		}
	case idl.KException:
		for _, s := range a.Exceptions {
			out[s.Name] = true
		}
	case idl.KEnum:
		for _, s := range a.Enums {
			out[s.Name] = true
		}
	case idl.KTypedef:
		for _, s := range a.Typedefs {
			out[s.Alias] = true
		}
	case idl.KConst:
		for _, s := range a.Constants {
			out[s.Name] = true
		}
	case idl.KService:
		for _, s := range a.Services {
			out[s.Name] = true
		}
	}
	return out
}

// c16WhyUnneeded says what kind of reference (if any) the model has to a definition that must go.
func c16WhyUnneeded(p *idl.Program, e *idl.TrimExpect, d *idl.Def) string {
	byStruct, byFunc := false, false
	var refs func(t *idl.Type) bool
	refs = func(t *idl.Type) bool {
		if t == nil {
			return false
		}
		if t.Ref == d {
			return true
		}
		return refs(t.Key) || refs(t.Elem)
	}
	for _, f := range e.Files {
		for _, x := range f.Defs {
			for _, fl := range x.Fields {
				if x != d && refs(fl.Type) {
					byStruct = true
				}
			}
			for _, fn := range x.Funcs {
				hit := refs(fn.Ret)
				for _, ar := range fn.Args {
					hit = hit || refs(ar.Type)
				}
				for _, th := range fn.Throws {
					hit = hit || refs(th.Type)
				}
				if hit {
					byFunc = true
				}
			}
		}
	}
	switch {
	case byFunc:
		return "referenced-only-by-removed-methods"
	case byStruct:
		return "referenced-only-by-removed-struct-likes"
	}
	return "unreferenced"
}

type c16Case struct {
	p     *idl.Program
	args  idl.TrimArgs
	texts map[string]string
}

func (c c16Case) replay() vlib.Replay {
	rp := vlib.Replay{}
	for k, v := range c.texts {
		rp[k] = v
	}
	rp["ARGS.txt"] = c16ArgString(c.args)
	return rp
}

// c16Check runs one trimming in-process and compares it with the model; it returns the dumped result.
func c16Check(r *vlib.Run, c c16Case, dir string) map[string]string {
	p, a := c.p, c.args
	e := idl.ExpectTrim(p, a)
	mainPath := filepath.Join(dir, "main.thrift")
	root, feErr, err := c16Trim(mainPath, a)
	if feErr != nil {
		r.Inconclusive("a generated program is rejected: " + feErr.Error())
		return nil
	}
	ctx := func() string {
		return "\nargs: " + c16ArgString(a) + "\n--- main.thrift ---\n" + vlib.Trunc(c.texts["main.thrift"], 1800)
	}
	r.Eval(1)
	if err != nil {
		r.Violation("C16/trim-fails/"+c16ErrClass(err.Error()), "TrimAST fails on an accepted program: "+err.Error()+ctx(), c.replay())
		return nil
	}
	// model files -> ASTs (the trimmer edits the ASTs in place, so pair them by path after the fact)
	byPath := map[string]*parser.Thrift{}
	var walk func(x *parser.Thrift)
	walk = func(x *parser.Thrift) {
		rel := c16Rel(dir, x.Filename)
		if _, ok := byPath[rel]; ok {
			return
		}
		byPath[rel] = x
		for _, inc := range x.Includes {
			if inc.Reference != nil {
				walk(inc.Reference)
			}
		}
	}
	walk(root)
	methodsTag := "no-filter"
	if len(a.Methods) > 0 {
		methodsTag = "method-filter"
		if a.MatchGoName {
			methodsTag = "method-filter-go-name"
		}
	}
	present := map[*idl.Def]bool{}
	for _, f := range e.Files {
		x := byPath[f.Path]
		for _, d := range f.Defs {
			if x != nil && c16Names(x, d.Kind)[d.Name] {
				present[d] = true
			}
			want := e.Def[d]
			r.Eval(1)
			switch {
			case want == idl.MustStay && !present[d]:
				where := "definition-removed"
				if x == nil {
					where = "whole-file-dropped"
				}
				r.Violation(fmt.Sprintf("C16/needed-%s-removed/%s/%s", d.Kind, where, e.Reason[d]), fmt.Sprintf("%s %s of %s must stay (%s) but is gone after trimming [%s]%s", d.Kind, d.Name, f.Path, e.Reason[d], methodsTag, ctx()), c.replay())
			case want == idl.MustGo && present[d]:
				why := "service-nothing-selects"
				if d.Kind != idl.KService {
					why = c16WhyUnneeded(p, e, d)
				}
				loc := "main-file"
				if f != p.Main() {
					loc = "included-file"
				}
				r.Violation(fmt.Sprintf("C16/unneeded-%s-kept/%s/%s/%s", d.Kind, why, loc, methodsTag), fmt.Sprintf("%s %s of %s is not needed by anything kept but survives trimming%s", d.Kind, d.Name, f.Path, ctx()), c.replay())
			case want == idl.MustStay:
				r.Sigf("kept:%s:%s:%s", d.Kind, e.Reason[d], methodsTag)
				if strings.Contains(e.Reason[d], "/itself/") {
					r.Sig("preserved-by:" + strings.SplitN(e.Reason[d], "/", 2)[0])
				}
			case want == idl.MustGo:
				r.Sigf("removed:%s:%s", d.Kind, methodsTag)
			default:
				r.Count("unasserted_definitions", 1)
			}
			if d.Kind != idl.KService || !present[d] {
				continue
			}
			var svc *parser.Service
			for _, s := range x.Services {
				if s.Name == d.Name {
					svc = s
				}
			}
			r.Eval(1)
			if e.ExtNeeded[d] && svc.Extends == "" {
				r.Violation("C16/needed-extends-removed/"+methodsTag+"/"+c16SvcPos(p, d), fmt.Sprintf("service %s of %s no longer extends %s although kept methods are inherited through it%s", d.Name, f.Path, d.Extends.Name, ctx()), c.replay())
			} else if e.ExtNeeded[d] {
				r.Sigf("extends-kept:%s:%s", methodsTag, c16SvcPos(p, d))
			}
			have := map[string]bool{}
			for _, fn := range svc.Functions {
				have[fn.Name] = true
			}
			for _, fn := range d.Funcs {
				r.Eval(1)
				switch {
				case e.Func[fn] == idl.MustStay && !have[fn.Name]:
					r.Violation("C16/selected-method-removed/"+methodsTag+"/"+c16SvcPos(p, d), fmt.Sprintf("method %s.%s must stay but is gone%s", d.Name, fn.Name, ctx()), c.replay())
				case e.Func[fn] == idl.MustGo && have[fn.Name]:
					r.Violation("C16/unselected-method-kept/"+c16SvcPos(p, d)+c16PrefixTag(a, d, fn), fmt.Sprintf("method %s.%s matches no -m pattern but survives%s", d.Name, fn.Name, ctx()), c.replay())
				case e.Func[fn] == idl.MustStay:
					r.Sigf("method-kept:%s:%s", methodsTag, c16SvcPos(p, d))
					if a.MatchGoName && len(a.Methods) > 0 && idl.GoNameOf(fn.Name) != fn.Name {
						r.Sig("method-selected-by-converted-name:" + c16SvcPos(p, d))
					}
				case e.Func[fn] == idl.MustGo:
					r.Sigf("method-removed:%s", c16SvcPos(p, d))
				}
			}
		}
	}
	// includes that survive must be needed by what survives, or lead to always-kept definitions
	for _, f := range e.Files {
		x := byPath[f.Path]
		if x == nil {
			continue
		}
		needed := map[*idl.File]bool{}
		for _, d := range f.Defs {
			if !present[d] {
				continue
			}
			ext := false
			var svc *parser.Service
			if d.Kind == idl.KService {
				for _, s := range x.Services {
					if s.Name == d.Name {
						svc = s
						ext = s.Extends != ""
					}
				}
			}
			keep := func(fn *idl.Func) bool {
				for _, g := range svc.Functions {
					if g.Name == fn.Name {
						return true
					}
				}
				return false
			}
			for g := range idl.RefFiles(d, keep, ext) {
				needed[g] = true

			}
		}
		surv := map[string]bool{}
		for _, inc := range x.Includes {
			surv[inc.Path] = true
		}
		// the flag the Go backend derives imports from (trim_idl hands this AST to the generator)
		for _, inc := range f.Includes {
			for _, xi := range x.Includes {
				if xi.Path != inc.Path {
					continue
				}
				used := xi.Used != nil && *xi.Used
				r.Eval(1)
				switch {
				case used && !needed[inc.File]:
					r.Violation("C16/include-flagged-used-after-trim-but-nothing-refers-to-it/"+methodsTag, fmt.Sprintf("%s: include %q is still flagged Used after trimming although nothing that survives refers to it (the Go backend would import an unused package)%s", f.Path, inc.Path, ctx()), c.replay())
				case !used && needed[inc.File]:
					r.Violation("C16/include-not-flagged-used-after-trim/"+methodsTag, fmt.Sprintf("%s: include %q is not flagged Used after trimming although surviving definitions refer to it%s", f.Path, inc.Path, ctx()), c.replay())
				case used:
					r.Sig("include-used-flag:true")
				default:
					r.Sig("include-used-flag:false:kept-for-always-kept-content")
				}
			}
		}
		for _, inc := range f.Includes {
			r.Eval(1)
			switch {
			case surv[inc.Path] && !needed[inc.File] && !e.Always[inc.File]:
				r.Violation("C16/unneeded-include-kept/"+methodsTag, fmt.Sprintf("%s still includes %q although nothing that survives refers to it and it holds nothing that is always kept%s", f.Path, inc.Path, ctx()), c.replay())
			case surv[inc.Path] && needed[inc.File]:
				r.Sig("include-kept:referenced")
			case surv[inc.Path]:
				r.Sig("include-kept:always-kept-content")
			case !surv[inc.Path] && needed[inc.File]:
				r.Violation("C16/needed-include-removed/"+methodsTag, fmt.Sprintf("%s lost its include %q although surviving definitions refer to it%s", f.Path, inc.Path, ctx()), c.replay())
			default:
				r.Sig("include-removed")
			}
		}
	}
	// the result is a valid IDL set
	texts, err := c16DumpSet(root, dir)
	if err != nil {
		r.Violation("C16/dump-of-trimmed-set-fails", err.Error()+ctx(), c.replay())
		return nil
	}
	out := filepath.Join(dir, "_trimmed")
	os.RemoveAll(out)
	vlib.WriteFiles(out, texts)
	r.Eval(1)
	if _, stage, err := harness.Frontend(filepath.Join(out, "main.thrift")); err != nil {
		rp := c.replay()
		for k, v := range texts {
			rp["trimmed/"+k] = v
		}
		r.Violation("C16/trimmed-set-rejected/"+stage+"/"+c16ErrClass(err.Error()), fmt.Sprintf("the trimmed IDL set does not pass the front end (%s): %v%s", stage, err, ctx()), rp)
		return nil
	}
	r.Sig("trimmed-set-valid:" + methodsTag)
	// trimming the result again changes nothing
	// (an unqualified -m name means "of the last service of the main file", which the first trimming may
	// have removed: the second run is given the meaning the name had in the first)
	a2 := a
	a2.Methods = nil
	for _, m := range a.Methods {
		if svcs := p.Main().DefsOf(idl.KService); !strings.Contains(m, ".") && len(svcs) > 0 {
			m = svcs[len(svcs)-1].Name + "." + m
		}
		a2.Methods = append(a2.Methods, m)
	}
	root2, feErr, err := c16Trim(filepath.Join(out, "main.thrift"), a2)
	r.Eval(1)
	if err == nil {
		err = feErr
	}
	if err != nil {
		r.Violation("C16/second-trim-fails", err.Error()+ctx(), c.replay())
		return texts
	}
	texts2, err := c16DumpSet(root2, out)
	if err != nil {
		r.Violation("C16/second-trim-fails", err.Error()+ctx(), c.replay())
		return texts
	}
	if d := c16TextDiff(texts, texts2); d != "" {
		rp := c.replay()
		for k, v := range texts {
			rp["trimmed/"+k] = v
		}
		for k, v := range texts2 {
			rp["trimmed-twice/"+k] = v
		}
		r.Violation("C16/second-trim-changes-result/"+strings.SplitN(d, ":", 2)[0], "trimming the trimmed set again changes it: "+d+ctx(), rp)
	} else {
		r.Sig("idempotent:" + methodsTag)
	}
	return texts
}

func c16SvcPos(p *idl.Program, d *idl.Def) string {
	if d.File != p.Main() {
		return "base-service-in-included-file"
	}
	if d.Extends != nil {
		return "main-service-with-base"
	}
	return "main-service"
}

// c16PrefixTag distinguishes the "S.get must not select S.getAll" rule in a finding key.
func c16PrefixTag(a idl.TrimArgs, d *idl.Def, fn *idl.Func) string {
	for _, m := range a.Methods {
		if strings.HasPrefix(d.Name+"."+fn.Name, m) || strings.HasPrefix(fn.Name, m) {
			return "/name-extends-pattern"
		}
	}
	return ""
}

func c16ErrClass(msg string) string {
	for _, k := range []string{"PANIC", "undefined", "not found", "expect", "cannot", "invalid", "duplicate", "circle", "nil pointer"} {
		if strings.Contains(msg, k) {
			return strings.ReplaceAll(k, " ", "-")
		}
	}
	return "other"
}

func c16TextDiff(a, b map[string]string) string {
	var names []string
	for k := range a {
		names = append(names, k)
	}
	for k := range b {
		if _, ok := a[k]; !ok {
			names = append(names, k)
		}
	}
	sort.Strings(names)
	for _, k := range names {
		x, okx := a[k]
		y, oky := b[k]
		if okx != oky {
			return fmt.Sprintf("file-set: %s present %v then %v", k, okx, oky)
		}
		if x == y {
			continue
		}
		lx, ly := strings.Split(x, "\n"), strings.Split(y, "\n")
		for i := 0; i < len(lx) || i < len(ly); i++ {
			var sx, sy string
			if i < len(lx) {
				sx = lx[i]
			}
			if i < len(ly) {
				sy = ly[i]
			}
			if sx != sy {
				w := strings.Fields(sx + " " + sy)
				kind := "line"
				if len(w) > 0 {
					kind = w[0]
				}
				return fmt.Sprintf("%s: %s line %d: %q became %q", kind, k, i+1, sx, sy)
			}
		}
	}
	return ""
}

func C16(r *vlib.Run) {
	r.Rule = "one evaluation = one definition, method or include of a generated program compared after trim.TrimAST with the reachability model (must stay / must go / not asserted), one validity check of the dumped trimmed set by the real front end, one second trimming compared text for text, one run of the trimmer binary compared with the library result, or one wire vector of a kept type in code generated with trim_idl; distinct = (outcome, definition kind, reason of reachability, filter mode) signatures"
	r.Assume("a -m pattern that matches only inside a longer name is not asserted either way; services of included files that no kept service extends are not asserted (their exclusive types must go)")
	r.Assume("an include survives legitimately when the surviving text refers to the file or the file (transitively) holds constants, typedefs, enums or preserved struct-likes")
	dir := vlib.ScratchBase("vf-c16-")
	defer os.RemoveAll(dir)
	rng := vlib.NewRng(r.Seed, "c16")
	n := r.N(500, 8000)
	type binCase struct {
		c     c16Case
		dir   string
		texts map[string]string
	}
	var bins []binCase
	var gens, stale []c16Case
	for i := 0; i < n; i++ {
		p := idl.Generate(rng.Fork("p"), c16Opts(rng))
		if i%2 == 1 {
			c16AddPassThrough(p)
		}
		sub := filepath.Join(dir, fmt.Sprintf("p%d", i))
		texts, err := harness.WriteProgram(sub, p, idl.PlainLayout())
		if err != nil {
			vlib.Fatal("C16", "write: %v", err)
		}
		keep := false
		for k := 0; k < 3; k++ {
			var a idl.TrimArgs
			if k > 0 {
				a = c16Args(rng, p)
			}
			c := c16Case{p: p, args: a, texts: texts}
			res := c16Check(r, c, sub)
			if res != nil && len(bins) < r.N(40, 400) && (i*3+k)%(n*3/r.N(40, 400)+1) == 0 {
				bins = append(bins, binCase{c, sub, res})
				keep = true
			}
		}
		if len(gens) < r.N(12, 120) && i%(n/r.N(12, 120)+1) == 0 {
			gens = append(gens, c16Case{p: p, texts: texts})
		} else if len(stale) < r.N(8, 60) && c16HasStaleInclude(p) {
			// an include that survives only for its always-kept content while every reference to it is trimmed
			stale = append(stale, c16Case{p: p, texts: texts})
		}
		if !keep {
			os.RemoveAll(sub)
		}
	}
	// the trimmer binary gives what the library gives
	for i, b := range bins {
		tout := filepath.Join(dir, fmt.Sprintf("bin%d", i))
		cwd := filepath.Join(dir, fmt.Sprintf("cwd%d", i))
		os.MkdirAll(cwd, 0o755)
		args := []string{"-r", b.dir, "-o", tout}
		yamlMethods := i%2 == 1 && len(b.c.args.Methods) > 0 // the documented `methods:` list of trim_config.yaml instead of -m
		for _, m := range b.c.args.Methods {
			if !yamlMethods {
				args = append(args, "-m", m)
			}
		}
		if b.c.args.NoPreserve {
			args = append(args, "-p", "false")
		}
		if len(b.c.args.PreserveNames) > 0 || b.c.args.NoPreserveComment || b.c.args.MatchGoName || len(b.c.args.PreserveFiles) > 0 || yamlMethods {
			y := ""
			if yamlMethods {
				y += "methods:\n"
				for _, m := range b.c.args.Methods {
					y += "  - '" + strings.ReplaceAll(m, "'", "''") + "'\n"
				}
			}
			if b.c.args.MatchGoName {
				y += "match_go_name: true\n"
			}
			if len(b.c.args.PreserveFiles) > 0 {
				y += "preserved_files:\n"
				for _, pf := range b.c.args.PreserveFiles {
					y += "  - " + filepath.Join(b.dir, pf) + "\n"
				}
			}
			if len(b.c.args.PreserveNames) > 0 {
				y += "preserved_structs:\n"
				for _, nme := range b.c.args.PreserveNames {
					y += "  - " + nme + "\n"
				}
			}
			if b.c.args.NoPreserveComment {
				y += "disable_preserve_comment: true\n"
			}
			os.WriteFile(filepath.Join(cwd, "trim_config.yaml"), []byte(y), 0o644)
		}
		args = append(args, filepath.Join(b.dir, "main.thrift"))
		res := vlib.RunCLI(cwd, nil, 60*time.Second, vlib.Bin("trimmer"), args...)
		r.Eval(1)
		ctx := "\nargs: " + c16ArgString(b.c.args) + "\n" + vlib.Trunc(res.Stderr+res.Stdout, 600)
		switch {
		case res.Crash != "":
			r.Violation("C16/binary/crash", "trimmer crashes"+ctx, b.c.replay())
		case res.Exit != 0:
			r.Violation("C16/binary/fails", fmt.Sprintf("trimmer exits %d on an accepted program", res.Exit)+ctx, b.c.replay())
		default:
			got := c16ReadTree(tout)
			if d := c16TextDiff(b.texts, got); d != "" {
				r.Violation("C16/binary/differs-from-library/"+strings.SplitN(d, ":", 2)[0], "the trimmer binary writes something else than trim.TrimAST + dump: "+d+ctx, b.c.replay())
			} else {
				r.Sig("binary-agrees-with-library")
				if len(b.c.args.Methods) > 0 {
					r.Sig("binary-agrees-with-library:method-filter")
				}
				if len(b.c.args.PreserveNames) > 0 {
					r.Sig("binary-agrees-with-library:config-file")
				}
				if b.c.args.MatchGoName {
					r.Sig("binary-agrees-with-library:match_go_name")
				}
				if yamlMethods {
					r.Sig("binary-agrees-with-library:methods-from-config-file")
				}
				if len(b.c.args.PreserveFiles) > 0 {
					r.Sig("binary-agrees-with-library:preserved_files")
				}
			}
		}
		os.RemoveAll(tout)
		os.RemoveAll(cwd)
		os.RemoveAll(b.dir)
	}
	r.Require("binary-agrees-with-library", "trimmed-set-valid:method-filter", "idempotent:no-filter", "kept:struct:preserved/itself/local:no-filter",
		"preserved-by:preserved-name", "preserved-by:preserved-go-name", "preserved-by:preserved-file", "method-selected-by-converted-name:main-service",
		"method-selected-by-converted-name:main-service-with-base", "idempotent:method-filter-go-name", "binary-agrees-with-library:match_go_name", "binary-agrees-with-library:preserved_files", "binary-agrees-with-library:methods-from-config-file")
	// trim_idl: generated code of the trimmed program compiles and kept types keep their wire behaviour
	s, err := harness.NewScratch("c16")
	if err != nil {
		vlib.Fatal("C16", "scratch: %v", err)
	}
	defer s.Close()
	var units []*harness.Unit
	for i, g := range append(gens, stale...) {
		e := idl.ExpectTrim(g.p, idl.TrimArgs{})
		units = append(units, &harness.Unit{Name: fmt.Sprintf("t%03d", i), Prog: idl.Prune(g.p, e), Texts: g.texts, Backend: "go", Opts: []string{"trim_idl"}, Recurse: true})
	}
	saved := c02Prefix
	c02Prefix = "C16/trim_idl-wire"
	defer func() { c02Prefix = saved }()
	ok := buildUnits(r, "C16", s, units)
	for _, u := range ok {
		tm, err := describe(u)
		if err != nil {
			r.Inconclusive(u.Name + ": " + err.Error())
			continue
		}
		for _, nt := range tm.notes {
			if strings.Contains(nt, "ambiguous") {
				continue
			}
			r.Violation("C16/trim_idl/kept-type-missing-in-generated-code", nt, vlib.Replay(u.Texts))
		}
		r.Sig("trim_idl-generated-code-compiles")
		c02Unit(r, rng.Fork(u.Name), u, tm, map[*idl.Program]map[string]map[string]string{})
	}
	r.Require("trim_idl-generated-code-compiles")
}

func c16ReadTree(dir string) map[string]string {
	out := map[string]string{}
	for _, rel := range vlib.TreeFiles(dir) {
		b, _ := os.ReadFile(filepath.Join(dir, rel))
		out[rel] = string(b)
	}
	return out
}

// c16Rel is the path of an AST's file relative to the program root (the parser stores paths relative to
// the working directory).
func c16Rel(base, name string) string {
	abs, err := filepath.Abs(name)
	if err != nil {
		return filepath.Base(name)
	}
	rel, err := filepath.Rel(base, abs)
	if err != nil {
		return filepath.Base(name)
	}
	return rel
}

// c16HasStaleInclude: some file keeps an include only because the included file holds always-kept content,
// while the original text referred to it from definitions that must go.
func c16HasStaleInclude(p *idl.Program) bool {
	e := idl.ExpectTrim(p, idl.TrimArgs{})
	all := func(*idl.Func) bool { return true }
	for _, f := range e.Files {
		before, after := map[*idl.File]bool{}, map[*idl.File]bool{}
		for _, d := range f.Defs {
			for g := range idl.RefFiles(d, all, true) {
				before[g] = true
				if e.Def[d] != idl.MustGo {
					after[g] = true
				}
			}
		}
		for _, inc := range f.Includes {
			if before[inc.File] && !after[inc.File] && e.Always[inc.File] {
				return true
			}
		}
	}
	return false
}

// c16AddPassThrough adds an include chain main -> zzpass -> zzleaf in which the middle file holds nothing
// that is always kept and nothing anybody refers to, while the leaf holds a constant, a typedef, an enum and
// a preserved struct: the leaf's definitions must survive, so both includes must.
func c16AddPassThrough(p *idl.Program) {
	leaf := &idl.File{Path: "zzleaf.thrift", Namespaces: []*idl.Namespace{{Lang: "go", Name: "vf.zzleaf"}}}
	i32 := func() *idl.Type { return &idl.Type{Name: "i32"} }
	leaf.Defs = []*idl.Def{
		{Kind: idl.KConst, Name: "ZZ_LIMIT", File: leaf, Type: i32(), Value: &idl.Value{Kind: idl.VInt, Int: 7}},
		{Kind: idl.KTypedef, Name: "ZzAlias", File: leaf, Type: &idl.Type{Name: "i64"}},
		{Kind: idl.KEnum, Name: "ZzEnum", File: leaf, EnumVals: []*idl.EnumVal{{Name: "ZZ_A", Explicit: true, Value: 1}}},
		{Kind: idl.KStruct, Name: "ZzKeep", File: leaf, Preserve: true, Fields: []*idl.Field{{ID: 1, ExplicitID: true, Type: i32(), Name: "a"}}},
		{Kind: idl.KStruct, Name: "ZzGone", File: leaf, Fields: []*idl.Field{{ID: 1, ExplicitID: true, Type: i32(), Name: "a"}}},
	}
	pass := &idl.File{Path: "zzpass.thrift", Namespaces: []*idl.Namespace{{Lang: "go", Name: "vf.zzpass"}}}
	pass.Defs = []*idl.Def{{Kind: idl.KStruct, Name: "ZzPass", File: pass, Fields: []*idl.Field{{ID: 1, ExplicitID: true, Type: i32(), Name: "a"}}}}
	pass.Includes = []*idl.Include{{File: leaf, Path: "zzleaf.thrift"}}
	// a file that is kept only for its enum (no constant, no typedef, nothing referenced): its unreferenced struct
	// and its own unneeded include must still go
	only := &idl.File{Path: "zzenum.thrift", Namespaces: []*idl.Namespace{{Lang: "go", Name: "vf.zzenum"}}}
	only.Defs = []*idl.Def{
		{Kind: idl.KEnum, Name: "ZzOnly", File: only, EnumVals: []*idl.EnumVal{{Name: "ZZ_ONLY", Explicit: true, Value: 1}}},
		{Kind: idl.KStruct, Name: "ZzStale", File: only, Fields: []*idl.Field{{ID: 1, ExplicitID: true, Type: i32(), Name: "a"}}},
	}
	main := p.Main()
	main.Includes = append(main.Includes, &idl.Include{File: pass, Path: "zzpass.thrift"}, &idl.Include{File: only, Path: "zzenum.thrift"})
	p.Files = append(p.Files, pass, leaf, only)
}
