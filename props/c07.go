package props

// C07 — Code generation is deterministic.

import (
	"bytes"
	"crypto/sha256"
	"encoding/hex"
	"encoding/json"
	"fmt"
	"os"
	"path/filepath"
	"sort"
	"strings"
	"sync"
	"time"

	"github.com/cloudwego/thriftgo/plugin"

	"verif/guest"
	"verif/idl"
	"verif/vlib"
)

func c07Opts(rng *vlib.Rng) idl.GenOpts {
	o := idl.DefaultOpts()
	o.Files = rng.Range(2, 5)
	o.Structs = rng.Range(2, 5)
	o.Annotations = 2
	o.MoreServices = true
	o.TypedefChains = rng.Bool()
	o.ExtraNS = true
	o.ExpDoubles = true
	o.SameNS = rng.Chance(1, 3)
	o.ThrowNamePool = true
	return o
}

var c07Configs = []struct {
	name    string
	backend string
	opts    []string
	plugin  bool
}{
	{"go/default", "go", nil, false},
	{"go/naming+tags", "go", []string{"naming_style=apache", "gen_db_tag", "frugal_tag", "reorder_fields", "json_enum_as_text"}, false},
	{"go/setters+deep-equal", "go", []string{"gen_setter", "gen_deep_equal", "nil_safe", "keep_unknown_fields"}, false},
	{"go/reflection", "go", []string{"with_reflection", "gen_type_meta"}, false},
	{"go/field-mask", "go", []string{"with_field_mask", "field_mask_halfway"}, false},
	{"go/slim", "go", []string{"template=slim"}, false},
	{"go/streamx+compatible", "go", []string{"compatible_names", "enum_as_int_32", "value_type_in_container"}, false},
	{"fastgo/default", "fastgo", nil, false},
	{"go/with-plugin", "go", nil, true},
	{"go/reflection+plugin", "go", []string{"with_reflection"}, true},
}

type c07Run struct {
	prog    int
	cfg     int
	variant string // "p1".."p16", "other-out-dir", "rerun-into-existing", "race-binary"
	env     []string
	outName string
	dir     string
	bin     string
	res     vlib.CLIResult
	tree    map[string]string
	stdin   []byte
	stdinOK bool
}

func C07(r *vlib.Run) {
	r.Rule = "one evaluation = the output tree (relative paths and sha256 of every file) of one thriftgo run compared with the tree of the first run of the same program and command line, across GOMAXPROCS 1..16, a differently named output directory, a second run into the existing directory and (thorough) the race-detector build; or the bytes a recording plugin received on stdin compared likewise; distinct = (configuration, variant, outcome) signatures plus the distinct output trees seen"
	r.Assume("map-iteration order differs between processes by itself (Go randomises it per map instance); the generated tree must not depend on it")
	base := vlib.ScratchBase("vf-c07-")
	defer os.RemoveAll(base)
	rng := vlib.NewRng(r.Seed, "c07")
	np := r.N(8, 40)
	var progs []map[string]string
	ks := idl.KitchenSinks()
	for i := 0; i < np; i++ {
		var p *idl.Program
		if i < 2 {
			p = ks[i]
		} else {
			p = idl.Generate(rng.Fork("p"), c07Opts(rng))
		}
		progs = append(progs, idl.RenderProgram(p, idl.PlainLayout()))
	}
	procs := []int{1, 2, 4, 8, 16}
	var runs []*c07Run
	for pi := range progs {
		for ci, cfg := range c07Configs {
			// quick: every configuration on the kitchen sinks, a rotating third on the rest; the slim template
			// (exception assertions) and reflection (two files per package) on all
			if !r.Thorough() && pi >= 2 && (pi+ci)%3 != 0 && cfg.name != "go/slim" && cfg.name != "go/reflection" {
				continue
			}
			for k, n := range procs {
				runs = append(runs, &c07Run{prog: pi, cfg: ci, variant: fmt.Sprintf("p%d", n), env: []string{fmt.Sprintf("GOMAXPROCS=%d", n)}, outName: "out", bin: "thriftgo"})
				if k == 0 {
					runs = append(runs, &c07Run{prog: pi, cfg: ci, variant: "rerun-into-existing", env: []string{"GOMAXPROCS=3"}, outName: "out", bin: "thriftgo"})
				}
			}
			// several files land in one fresh package directory: repeat with many writers
			if cfg.name == "go/reflection" || cfg.name == "go/slim" {
				for k := 0; k < 6; k++ {
					runs = append(runs, &c07Run{prog: pi, cfg: ci, variant: fmt.Sprintf("p16-again-%d", k), env: []string{"GOMAXPROCS=16"}, outName: "out", bin: "thriftgo"})
				}
			}
			runs = append(runs, &c07Run{prog: pi, cfg: ci, variant: "other-out-dir", env: []string{"GOMAXPROCS=5"}, outName: "some/other-place_2", bin: "thriftgo"})
			if r.Thorough() {
				runs = append(runs, &c07Run{prog: pi, cfg: ci, variant: "race-binary", env: []string{"GOMAXPROCS=8"}, outName: "out", bin: "thriftgo-race"})
			}
		}
	}
	// every run in its own directory with the same relative layout
	exec := func(i int, ru *c07Run) {
		cfg := c07Configs[ru.cfg]
		ru.dir = filepath.Join(base, fmt.Sprintf("r%05d", i))
		vlib.WriteFiles(filepath.Join(ru.dir, "idl"), progs[ru.prog])
		g := cfg.backend
		if len(cfg.opts) > 0 {
			g += ":" + strings.Join(cfg.opts, ",")
		}
		args := []string{"-g", g, "-o", ru.outName, "-r"}
		env := append([]string{}, ru.env...)
		if cfg.plugin {
			args = append(args, "-p", "rec="+vlib.Bin("recplugin")+":alpha=1,beta,gamma=x=y")
			env = append(env, "REC_DIR="+filepath.Join(ru.dir, "rec"), c07PluginScript(ru.outName))
		}
		args = append(args, "idl/main.thrift")
		n := 1
		if ru.variant == "rerun-into-existing" {
			n = 2
		}
		for k := 0; k < n; k++ {
			ru.res = vlib.RunCLI(ru.dir, env, 120*time.Second, vlib.Bin(ru.bin), args...)
		}
		ru.tree = vlib.Tree(filepath.Join(ru.dir, ru.outName))
		if cfg.plugin {
			b, err := os.ReadFile(filepath.Join(ru.dir, "rec", "stdin.bin"))
			ru.stdin, ru.stdinOK = b, err == nil
		}
	}
	var wg sync.WaitGroup
	ch := make(chan int)
	for w := 0; w < 8; w++ {
		wg.Add(1)
		go func() {
			defer wg.Done()
			for i := range ch {
				exec(i, runs[i])
			}
		}()
	}
	for i := range runs {
		ch <- i
	}
	close(ch)
	wg.Wait()
	// judge against the first run of each (program, configuration)
	first := map[[2]int]*c07Run{}
	trees := map[string]bool{}
	for _, ru := range runs {
		cfg := c07Configs[ru.cfg]
		key := [2]int{ru.prog, ru.cfg}
		replay := func(other *c07Run) vlib.Replay {
			rp := vlib.Replay{"CASE.txt": fmt.Sprintf("config=%s variant=%s (compared with variant %s)\n", cfg.name, ru.variant, other.variant)}
			for k, v := range progs[ru.prog] {
				rp["idl/"+k] = v
			}
			return rp
		}
		if ru.res.TimedOut {
			r.Inconclusive("watchdog: " + cfg.name + " " + ru.variant)
			continue
		}
		if ru.res.Crash != "" {
			r.Violation("C07/crash/"+cfg.name, vlib.Trunc(ru.res.Stderr+ru.res.Stdout, 1500), replay(ru))
			continue
		}
		if ru.res.Exit != 0 {
			// a program this configuration cannot generate says nothing about determinism, but it must fail every time
			if f := first[key]; f != nil && f.res.Exit == 0 {
				r.Violation("C07/run-fails-only-sometimes/"+cfg.name, fmt.Sprintf("variant %s exits %d, variant %s exited 0: %s", ru.variant, ru.res.Exit, f.variant, vlib.Trunc(ru.res.Stderr+ru.res.Stdout, 800)), replay(f))
			} else if f == nil {
				first[key] = ru
				r.Count("runs_rejected", 1)
			}
			continue
		}
		f := first[key]
		if f == nil {
			first[key] = ru
			trees[c07TreeHash(ru.tree)] = true
			if len(ru.tree) == 0 {
				r.Violation("C07/no-output/"+cfg.name, "exit 0 but nothing written", replay(ru))
			}
			continue
		}
		r.Eval(1)
		if f.res.Exit != 0 {
			r.Violation("C07/run-fails-only-sometimes/"+cfg.name, fmt.Sprintf("variant %s exits 0, variant %s exited %d", ru.variant, f.variant, f.res.Exit), replay(f))
			continue
		}
		trees[c07TreeHash(ru.tree)] = true
		if d := c07TreeDiff(f, ru); d != "" {
			rp := replay(f)
			rp["DIFF.txt"] = d
			r.Violation("C07/output-differs/"+cfg.name+"/"+c07FileClass(d), fmt.Sprintf("[%s] variant %s and variant %s wrote different trees:\n%s", cfg.name, f.variant, ru.variant, vlib.Trunc(d, 1800)), rp)
		} else {
			r.Sigf("same-tree:%s:%s", cfg.name, ru.variant)
		}
		if cfg.plugin {
			r.Eval(1)
			switch {
			case !ru.stdinOK || !f.stdinOK:
				r.Violation("C07/plugin-not-run/"+cfg.name, "the recording plugin left no stdin.bin", replay(f))
			case ru.outName != f.outName:
				// the request carries the output path
			case !bytes.Equal(ru.stdin, f.stdin):
				r.Sig("plugin-input-compared:" + cfg.name)
				if c07SameRequest(ru.stdin, f.stdin) {
					// the same request up to the order in which the entries of a map were written
					r.Violation("C07/plugin-input-differs/only-order-of-map-entries", fmt.Sprintf("[%s] the plugin received different bytes in variant %s and variant %s; both decode to the same request, the entries of Thrift.Name2Category come in a different order", cfg.name, f.variant, ru.variant), replay(f))
					break
				}
				i := 0
				for i < len(ru.stdin) && i < len(f.stdin) && ru.stdin[i] == f.stdin[i] {
					i++
				}
				r.Violation("C07/plugin-input-differs/"+cfg.name, fmt.Sprintf("[%s] the plugin received %d bytes in variant %s and %d bytes in variant %s; first difference at offset %d: %q vs %q", cfg.name, len(f.stdin), f.variant, len(ru.stdin), ru.variant, i, c07Around(f.stdin, i), c07Around(ru.stdin, i)), replay(f))
			default:
				r.Sig("plugin-input-compared:" + cfg.name)
				r.Sigf("same-plugin-input:%s:%s", cfg.name, ru.variant)
			}
		}
	}
	for _, ru := range runs {
		os.RemoveAll(ru.dir)
	}
	r.SetExtra("distinct_output_trees", len(trees))
	r.SetExtra("runs", len(runs))
	for _, rep := range vlib.ReadRaceLogs(filepath.Join(os.Getenv("VERIF_BIN"), "race.log")) {
		if rep.InRepo {
			r.Violation("C07/data-race/"+rep.Key, "race detector report from the thriftgo race build:\n"+vlib.Trunc(rep.Text, 3000), nil)
		}
	}
	r.Require("same-tree:go/default:p16", "same-tree:fastgo/default:p16", "plugin-input-compared:go/with-plugin", "same-tree:go/default:other-out-dir", "same-tree:go/default:rerun-into-existing")
}

// c07SameRequest decodes both byte strings with the real plugin package and compares them canonically
// (maps order-insensitively).
func c07SameRequest(a, b []byte) bool {
	same := false
	safely(func() {
		ra, ea := plugin.UnmarshalRequest(a)
		rb, eb := plugin.UnmarshalRequest(b)
		if ea != nil || eb != nil {
			return
		}
		ja, _ := json.Marshal(guest.CanonShared(ra))
		jb, _ := json.Marshal(guest.CanonShared(rb))
		same = bytes.Equal(ja, jb)
	})
	return same
}

func c07TreeHash(t map[string]string) string {
	var ks []string
	for k, v := range t {
		ks = append(ks, k+"="+v)
	}
	sort.Strings(ks)
	h := sha256.Sum256([]byte(strings.Join(ks, "\n")))
	return hex.EncodeToString(h[:8])
}

// c07TreeDiff describes the first differences of two output trees (contents read back from disk).
func c07TreeDiff(a, b *c07Run) string {
	var names []string
	for k := range a.tree {
		names = append(names, k)
	}
	for k := range b.tree {
		if _, ok := a.tree[k]; !ok {
			names = append(names, k)
		}
	}
	sort.Strings(names)
	var out []string
	for _, k := range names {
		ha, oka := a.tree[k]
		hb, okb := b.tree[k]
		switch {
		case oka != okb:
			out = append(out, fmt.Sprintf("FILE-SET %s: present %v / %v", k, oka, okb))
		case ha != hb:
			ba, _ := os.ReadFile(filepath.Join(a.dir, a.outName, k))
			bb, _ := os.ReadFile(filepath.Join(b.dir, b.outName, k))
			la, lb := strings.Split(string(ba), "\n"), strings.Split(string(bb), "\n")
			for i := 0; i < len(la) || i < len(lb); i++ {
				var x, y string
				if i < len(la) {
					x = la[i]
				}
				if i < len(lb) {
					y = lb[i]
				}
				if x != y {
					out = append(out, fmt.Sprintf("CONTENT %s line %d:\n  < %s\n  > %s", k, i+1, vlib.Trunc(x, 300), vlib.Trunc(y, 300)))
					break
				}
			}
		}
		if len(out) >= 6 {
			break
		}
	}
	return strings.Join(out, "\n")
}

// c07FileClass names the kind of file that differs first.
func c07FileClass(d string) string {
	f := strings.Fields(d)
	if len(f) < 2 {
		return "unknown"
	}
	if f[0] == "FILE-SET" {
		return "file-set"
	}
	b := filepath.Base(f[1])
	switch {
	case strings.HasSuffix(b, "-reflection.go"):
		return "reflection-file"
	case strings.HasPrefix(b, "k-"):
		return "k-file"
	case strings.HasSuffix(b, ".go"):
		return "go-file"
	}
	return "other-file"
}

func c07Around(b []byte, i int) string {
	lo, hi := i-12, i+12
	if lo < 0 {
		lo = 0
	}
	if hi > len(b) {
		hi = len(b)
	}
	return string(b[lo:hi])
}

// c07PluginScript: the recording plugin answers with one file and three patches for it; the text of each patch
// holds the marker of the next point (a cycle), so an assembly that depends on the order in which points are
// visited shows up as a different file from run to run.
func c07PluginScript(outName string) string {
	mk := func(p string) string { return "@@thriftgo_insertion_point(" + p + ")" }
	return `REC_SCRIPT={"mode":"ok","files":[{"name":"` + outName + `/from_plugin.txt","content":"hello A:` + mk("pa") + ` B:` + mk("pb") + ` C:` + mk("pc") + ` D:` + mk("pd") + `"},` +
		`{"insertion_point":"pa","content":"<a ` + mk("pb") + `>"},{"insertion_point":"pb","content":"<b ` + mk("pc") + `>"},{"insertion_point":"pc","content":"<c ` + mk("pd") + `>"},{"insertion_point":"pd","content":"<d ` + mk("pa") + `>"}]}`
}
