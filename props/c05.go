package props

// C05 — Symbol resolution binds every reference to the definition the IDL names.

import (
	"fmt"
	"os"
	"path/filepath"
	"strings"

	"verif/harness"
	"verif/idl"
	"verif/vlib"
)

func c05Opts(rng *vlib.Rng) idl.GenOpts {
	o := idl.DefaultOpts()
	o.Files = rng.Range(2, 5)
	o.Structs = rng.Range(2, 4)
	o.SameBase = rng.Chance(1, 3)
	o.TypedefChains = true
	o.PrefixNames = true
	o.Annotations = 0
	o.UnusedIncl = true
	o.NameStress = 1
	o.UnionDefault = true
	o.TypedefEnumSel = true
	o.HexIDs = true
	o.DottedFiles = rng.Chance(1, 3)
	o.SameBaseClash = true
	o.PrefixEnums = true
	return o
}

func programText(texts map[string]string) string {
	var sb strings.Builder
	for _, n := range sortedKeys(texts) {
		fmt.Fprintf(&sb, "=== %s ===\n%s\n", n, texts[n])
	}
	return sb.String()
}

func sortedKeys(m map[string]string) []string {
	var ks []string
	for k := range m {
		ks = append(ks, k)
	}
	for i := range ks {
		for j := i + 1; j < len(ks); j++ {
			if ks[j] < ks[i] {
				ks[i], ks[j] = ks[j], ks[i]
			}
		}
	}
	return ks
}

func C05(r *vlib.Run) {
	r.Rule = "one case = a multi-file model (include DAG with diamonds, same base name in different directories, typedef chains crossing files, names equal to include prefixes, all identifier forms, unused includes) under one permutation of the definition order of every file; the real parser+checker+resolver run in-process and every type reference / identifier constant / include / base service of every file is compared with the model's intended binding; distinct = binding-shape signatures observed"
	dir := vlib.ScratchBase("vf-c05-")
	defer os.RemoveAll(dir)
	rng := vlib.NewRng(r.Seed, "c05")
	n := r.N(500, 6000)
	perms := 6
	for i := 0; i < n; i++ {
		p := idl.Generate(rng.Fork("p"), c05Opts(rng))
		for k := 0; k < perms; k++ {
			if k > 0 {
				for _, f := range p.Files {
					pm := rng.Perm(len(f.Defs))
					nd := make([]*idl.Def, len(pm))
					for a, b := range pm {
						nd[a] = f.Defs[b]
					}
					f.Defs = nd
				}
			}
			sub := filepath.Join(dir, fmt.Sprintf("p%d_%d", i, k))
			texts, err := harness.WriteProgram(sub, p, idl.PlainLayout())
			if err != nil {
				vlib.Fatal("C05", "write: %v", err)
			}
			ast, stage, err := harness.Frontend(filepath.Join(sub, "main.thrift"))
			r.Eval(1)
			if err != nil {
				key := "C05/valid-program-rejected/" + stage
				if strings.HasPrefix(err.Error(), "PANIC") {
					key = "C05/panic/" + stage
				}
				r.Violation(key, fmt.Sprintf("permutation %d: %v\n%s", k, err, vlib.Trunc(programText(texts), 4000)), vlib.Replay(texts))
				os.RemoveAll(sub)
				continue
			}
			asts, err := harness.MapASTs(p, ast)
			if err != nil {
				r.Violation("C05/include-graph", err.Error()+"\n"+vlib.Trunc(programText(texts), 3000), vlib.Replay(texts))
				os.RemoveAll(sub)
				continue
			}
			for _, f := range p.Files {
				for _, d := range idl.CompareResolved(f, asts[f]) {
					r.Violation("C05/"+d.Site, fmt.Sprintf("%s (permutation %d)\n%s", d, k, vlib.Trunc(programText(texts), 4000)), vlib.Replay(texts))
				}
			}
			os.RemoveAll(sub)
			if i == 0 && k == 1 {
				r.Sample(map[string]string{"program": vlib.Trunc(programText(texts), 2500)})
			}
		}
		c05Sigs(r, p)
	}
}

// c05Sigs records the binding shapes present in the compared programs.
func c05Sigs(r *vlib.Run, p *idl.Program) {
	chain := func(t *idl.Type) (n int, cross bool) {
		for t.Ref != nil && t.Ref.Kind == idl.KTypedef {
			n++
			next := t.Ref.Type
			if next.Ref != nil && next.Ref.File != t.Ref.File {
				cross = true
			}
			t = next
		}
		return
	}
	var walkT func(f *idl.File, t *idl.Type)
	walkT = func(f *idl.File, t *idl.Type) {
		if t == nil {
			return
		}
		if t.Ref != nil {
			n, cross := chain(t)
			r.Sigf("type-ref/%s/qualified=%v/typedef-chain=%d/crossfile-chain=%v/final=%s", t.Ref.Kind, t.Qual, min(n, 6), cross, t.Cat())
		}
		walkT(f, t.Key)
		walkT(f, t.Elem)
	}
	var walkV func(f *idl.File, v *idl.Value)
	walkV = func(f *idl.File, v *idl.Value) {
		if v == nil {
			return
		}
		if v.Kind == idl.VIdent && v.BoolLit == 0 {
			switch {
			case v.ToConst != nil:
				r.Sigf("ident/const/foreign=%v", v.ToConst.File != f)
			case v.ToEnumVal != nil:
				r.Sigf("ident/enum/foreign=%v/via-typedef=%v/typedef-foreign=%v", v.ToEnum.File != f, v.ViaType != nil, v.ViaType != nil && v.ViaType.File != f)
			}
		}
		for _, e := range v.List {
			walkV(f, e)
		}
		for _, e := range v.Map {
			walkV(f, e[0])
			walkV(f, e[1])
		}
	}
	for _, f := range p.Files {
		used := idl.UsedIncludes(f)
		for i := range f.Includes {
			r.Sigf("include/used=%v", used[i])
		}
		seen := map[string]int{}
		for _, inc := range f.Includes {
			seen[inc.File.Prefix()]++
		}
		for _, c := range seen {
			if c > 1 {
				r.Sig("include/same-prefix-twice")
			}
		}
		for _, d := range f.Defs {
			for _, inc := range f.Includes {
				if d.Name == inc.File.Prefix() {
					r.Sigf("name-equals-include-prefix/%s", d.Kind)
				}
			}
			walkT(f, d.Type)
			walkV(f, d.Value)
			for _, fl := range d.Fields {
				walkT(f, fl.Type)
				walkV(f, fl.Default)
			}
			if d.Kind == idl.KService {
				r.Sigf("service/extends=%v/foreign=%v", d.Extends != nil, d.Extends != nil && d.Extends.File != f)
			}
			for _, fn := range d.Funcs {
				walkT(f, fn.Ret)
				for _, a := range fn.Args {
					walkT(f, a.Type)
				}
				for _, a := range fn.Throws {
					walkT(f, a.Type)
				}
			}
		}
	}
}
