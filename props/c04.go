package props

// C04 — Invalid input is diagnosed: non-zero exit, message, no output, no crash.

import (
	"fmt"
	"go/parser"
	"go/token"
	"os"
	"path/filepath"
	"strings"
	"sync"
	"time"

	"verif/harness"
	"verif/idl"
	"verif/vlib"
)

func c04Opts(rng *vlib.Rng) idl.GenOpts {
	o := idl.DefaultOpts()
	o.Files = rng.Range(2, 5)
	o.Structs = rng.Range(2, 4)
	o.Annotations = 0
	o.NameStress = 0
	o.MoreServices = rng.Bool()
	o.TypedefChains = true
	o.UnionDefault = false
	o.EmptyDefs = false
	return o
}

type c04Job struct {
	id      int
	kind    string // catalogue entry, "valid", or "cli/..."
	where   string
	site    string
	backend string
	recurse bool
	texts   map[string]string
	argv    func(idlMain, out string) []string // command-line cases
	res     vlib.CLIResult
	out     map[string]string
	dir     string
}

// c04Observe runs the real binary on one job.
func c04Observe(j *c04Job, base string) {
	j.dir = filepath.Join(base, fmt.Sprintf("j%05d", j.id))
	idlDir := filepath.Join(j.dir, "idl")
	out := filepath.Join(j.dir, "out")
	vlib.WriteFiles(idlDir, j.texts)
	os.MkdirAll(out, 0o755)
	var args []string
	if j.argv != nil {
		args = j.argv(filepath.Join(idlDir, "main.thrift"), out)
	} else {
		args = []string{"-g", j.backend, "-o", out}
		if j.recurse {
			args = append(args, "-r")
		}
		args = append(args, filepath.Join(idlDir, "main.thrift"))
	}
	j.res = vlib.RunCLI(j.dir, nil, 30*time.Second, vlib.Bin("thriftgo"), args...)
	j.out = vlib.Tree(out)
	// a default output directory (no -o) lands in the working directory
	for rel, h := range vlib.Tree(j.dir) {
		if strings.HasPrefix(rel, "idl/") || strings.HasPrefix(rel, "out/") {
			continue
		}
		j.out["(cwd)/"+rel] = h
	}
}

func (j *c04Job) replay() vlib.Replay {
	rp := vlib.Replay{}
	for k, v := range j.texts {
		rp["idl/"+k] = v
	}
	rp["CASE.txt"] = fmt.Sprintf("kind=%s where=%s site=%s backend=%s recurse=%v\nexit=%d\n--- stdout ---\n%s\n--- stderr ---\n%s\n", j.kind, j.where, j.site, j.backend, j.recurse, j.res.Exit, vlib.Trunc(j.res.Stdout, 3000), vlib.Trunc(j.res.Stderr, 3000))
	return rp
}

func C04(r *vlib.Run) {
	r.Rule = "one evaluation = one run of the thriftgo binary on a generated valid program with exactly one rule-breaking edit from the catalogue (or on an invalid command line), observed for exit status, diagnostic, files written and crash traces; or one run on the unedited program observed for exit 0 and a complete, parseable output tree; distinct = (catalogue entry, position in the include graph, backend, outcome) signatures"
	r.Assume("a diagnostic is any non-empty stdout/stderr text that is not a Go panic / fatal-error trace; 'Recovered from panic' followed by a stack is a crash")
	base := vlib.ScratchBase("vf-c04-")
	defer os.RemoveAll(base)
	rng := vlib.NewRng(r.Seed, "c04")
	var jobs []*c04Job
	nb := r.N(24, 300)
	backends := []string{"go", "fastgo"}
	id := 0
	applicable := map[string]int{}
	for b := 0; b < nb; b++ {
		seedTag := fmt.Sprintf("base%d", b)
		mk := func() *idl.Program {
			g := vlib.NewRng(r.Seed, "c04/"+seedTag)
			return idl.Generate(g, c04Opts(g))
		}
		// the unedited program must be accepted and produce its output
		p0 := mk()
		texts0 := idl.RenderProgram(p0, idl.PlainLayout())
		for bi, be := range backends {
			id++
			jobs = append(jobs, &c04Job{id: id, kind: "valid", backend: be, recurse: bi == 0 || b%2 == 0, texts: texts0})
		}
		for ki, kind := range idl.BreakKinds {
			// every entry on a third of the base programs, rotating
			if (ki+b)%3 != 0 && !r.Thorough() {
				continue
			}
			p := mk()
			br, ok := idl.Break(rng.Fork(seedTag+kind), p, kind)
			if !ok {
				continue
			}
			texts := idl.RenderProgram(p, idl.PlainLayout())
			if !br.ApplyText(rng, texts) {
				continue
			}
			applicable[kind]++
			be := backends[(ki+b)%2]
			id++
			jobs = append(jobs, &c04Job{id: id, kind: kind, where: br.Where, site: br.Site, backend: be, recurse: (ki+b)%4 < 2, texts: texts})
			if r.Thorough() {
				id++
				jobs = append(jobs, &c04Job{id: id, kind: kind, where: br.Where, site: br.Site, backend: backends[(ki+b+1)%2], recurse: (ki+b)%4 >= 2, texts: texts})
			}
		}
		// invalid command lines on the valid program
		if b < 6 || r.Thorough() {
			cli := map[string]func(m, o string) []string{
				"cli/unknown-flag":          func(m, o string) []string { return []string{"--no-such-flag-zz", "-g", "go", "-o", o, m} },
				"cli/unknown-backend":       func(m, o string) []string { return []string{"-g", "nosuchlang_zz", "-o", o, m} },
				"cli/no-idl-argument":       func(m, o string) []string { return []string{"-g", "go", "-o", o} },
				"cli/two-idl-arguments":     func(m, o string) []string { return []string{"-g", "go", "-o", o, m, m} },
				"cli/idl-file-missing":      func(m, o string) []string { return []string{"-g", "go", "-o", o, m + ".nosuch"} },
				"cli/idl-is-a-directory":    func(m, o string) []string { return []string{"-g", "go", "-o", o, filepath.Dir(m)} },
				"cli/plugin-not-found":      func(m, o string) []string { return []string{"-g", "go", "-o", o, "-p", "no_such_plugin_zz", m} },
				"cli/bad-time-limit":        func(m, o string) []string { return []string{"-g", "go", "-o", o, "--plugin-time-limit", "soon", m} },
				"cli/flag-without-value":    func(m, o string) []string { return []string{m, "-g"} },
				"cli/output-path-is-a-file": func(m, o string) []string { return []string{"-g", "go", "-o", m, m} },
				"cli/bad-option-value":      func(m, o string) []string { return []string{"-g", "go:naming_style=no_such_style_zz", "-o", o, m} },
			}
			for name, f := range cli {
				id++
				jobs = append(jobs, &c04Job{id: id, kind: name, where: "command-line", backend: "go", texts: texts0, argv: f})
			}
		}
	}
	// exemplars of the known finding "wrong value kind in an included file that the run does not generate"
	for _, ex := range [][2]string{
		{"value/string-for-integer", `const i32 X = "twelve"`},
		{"value/string-for-double", `const double X = "1.5"`},
		{"value/string-for-bool", `const bool X = "yes"`},
		{"value/integer-for-string", `const string X = 12`},
		{"value/list-for-integer", `const i32 X = [1]`},
		{"value/unknown-field-in-struct-literal", `const L X = {"no_such_field_zz": 1}`},
		{"value/non-string-key-in-struct-literal", `const L X = {7: 1}`},
	} {
		texts := map[string]string{
			"main.thrift": "include \"lib.thrift\"\nnamespace go nf.mainpkg\nstruct M {1: i32 a}\n",
			"lib.thrift":  "namespace go nf.lib\nstruct L {1: i32 a}\n" + ex[1] + "\n",
		}
		id++
		jobs = append(jobs, &c04Job{id: id, kind: ex[0], where: "included-file", site: "exemplar: unused include, no -r", backend: "go", recurse: false, texts: texts})
		id++
		jobs = append(jobs, &c04Job{id: id, kind: ex[0], where: "included-file", site: "exemplar: unused include, with -r", backend: "go", recurse: true, texts: texts})
	}
	// run
	var wg sync.WaitGroup
	ch := make(chan *c04Job)
	for w := 0; w < 14; w++ {
		wg.Add(1)
		go func() {
			defer wg.Done()
			for j := range ch {
				c04Observe(j, base)
			}
		}()
	}
	for _, j := range jobs {
		ch <- j
	}
	close(ch)
	wg.Wait()
	// judge
	for _, j := range jobs {
		r.Eval(1)
		text := strings.TrimSpace(j.res.Stdout + j.res.Stderr)
		tag := fmt.Sprintf("%s/%s/%s", j.kind, j.where, j.backend)
		ctx := fmt.Sprintf("[%s at %s (%s), -g %s, recurse=%v] exit=%d\n%s", j.kind, j.where, j.site, j.backend, j.recurse, j.res.Exit, vlib.Trunc(text, 1200))
		if j.res.TimedOut {
			if strings.Contains(j.res.Stderr, "goroutine ") {
				r.Violation("C04/hang/"+j.kind, "thriftgo did not finish within the watchdog; goroutine dump taken with SIGQUIT:\n"+vlib.Trunc(j.res.Stderr, 2500), j.replay())
			} else {
				r.Inconclusive("watchdog fired without a goroutine dump: " + tag)
			}
			continue
		}
		if j.res.Crash != "" {
			r.Violation("C04/crash/"+strings.ReplaceAll(j.res.Crash, " ", "-")+"/"+j.kind, "thriftgo dies with a Go trace instead of a diagnostic: "+ctx, j.replay())
			os.RemoveAll(j.dir)
			continue
		}
		if j.kind == "valid" {
			switch {
			case j.res.Exit != 0:
				r.Violation("C04/valid-program-rejected/"+j.backend, "the unedited program is rejected: "+ctx, j.replay())
			default:
				if msg := c04Complete(j); msg != "" {
					r.Violation("C04/exit-0-with-incomplete-output/"+j.backend, msg+"\n"+ctx, j.replay())
				} else {
					r.Sigf("valid:accepted-with-complete-output:%s:recurse=%v", j.backend, j.recurse)
				}
			}
			os.RemoveAll(j.dir)
			continue
		}
		switch {
		case j.res.Exit == 0 && strings.HasPrefix(j.kind, "value/") && j.where != "main-file" && !j.recurse:
			// the value sits in an included file for which no code is generated in this run (no -r)
			r.Violation("C04/accepted/in-a-file-not-generated/"+j.kind, "thriftgo exits 0 on an input that breaks the rule (the value sits in an included file that this run does not generate): "+ctx, j.replay())
		case j.res.Exit == 0:
			r.Violation("C04/accepted/"+j.kind+"/"+j.backend, "thriftgo exits 0 on an input that breaks the rule: "+ctx, j.replay())
		case text == "":
			r.Violation("C04/no-diagnostic/"+j.kind, "thriftgo fails without any message: "+ctx, j.replay())
		case len(j.out) > 0:
			var names []string
			for n := range j.out {
				names = append(names, n)
			}
			r.Violation("C04/output-written-despite-error/"+j.kind+"/"+j.backend, fmt.Sprintf("thriftgo fails but leaves %d generated file(s) %v: %s", len(names), vlib.Trunc(strings.Join(names, " "), 300), ctx), j.replay())
		default:
			r.Sigf("diagnosed:%s", tag)
		}
		os.RemoveAll(j.dir)
	}
	var never []string
	for _, k := range idl.BreakKinds {
		if applicable[k] == 0 && k != "include/cycle-3" && k != "include/cycle-4" { // long include chains are not in every sample
			never = append(never, k)
		}
	}
	if len(never) > 0 {
		vlib.Fatal("C04", "catalogue entries that found no position in any program: %v", never)
	}
	r.SetExtra("catalogue_entries", len(idl.BreakKinds))
	_ = harness.Frontend
}

// c04Complete checks the output tree of an accepted run: one parseable Go file per IDL file in scope.
func c04Complete(j *c04Job) string {
	out := filepath.Join(j.dir, "out")
	files := vlib.TreeFiles(out)
	gof := 0
	for _, rel := range files {
		if !strings.HasSuffix(rel, ".go") {
			continue
		}
		gof++
		b, err := os.ReadFile(filepath.Join(out, rel))
		if err != nil || len(b) == 0 {
			return "empty or unreadable generated file " + rel
		}
		if _, err := parser.ParseFile(token.NewFileSet(), rel, b, parser.PackageClauseOnly); err != nil {
			return "generated file " + rel + " is not Go: " + vlib.FirstLine(err.Error())
		}
		if _, err := parser.ParseFile(token.NewFileSet(), rel, b, 0); err != nil {
			return "generated file " + rel + " does not parse (truncated?): " + vlib.FirstLine(err.Error())
		}
	}
	want := 1
	if j.recurse {
		want = len(j.texts)
	}
	if gof < want {
		return fmt.Sprintf("%d IDL files in scope but only %d Go files written: %v", want, gof, files)
	}
	return ""
}
