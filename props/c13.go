package props

// C13 — Field-mask filtered serialization emits exactly the selected data.

import (
	"fmt"
	"strconv"
	"strings"

	"verif/fmref"
	"verif/harness"
	"verif/idl"
	"verif/refcodec"
	"verif/vlib"
)

func c13Opts(rng *vlib.Rng) idl.GenOpts {
	o := idl.DefaultOpts()
	o.Files = rng.Range(1, 2)
	o.Structs = rng.Range(3, 5)
	o.FieldsMax = 8
	o.NameStress = 0
	o.Annotations = 0
	o.Services = false
	o.Consts = false
	o.UnionDefault = false
	o.Unions = rng.Chance(1, 3)
	o.MaxDepth = 3
	return o
}

type c13Step struct {
	kind   string // write | read | nil-write
	mask   *fmref.Mask
	expect *idl.Val
	info   string
}

type c13Case struct {
	def   *idl.Def
	v     *idl.Val
	steps []c13Step
}

// c13Expect computes the filtered value; rejected required fields carry their current value when
// it is a scalar (or the zero value with field_mask_zero_required) and are unasserted otherwise.
func c13Expect(v *idl.Val, d *idl.Def, m *fmref.Mask, zeroRequired bool) *idl.Val {
	fmref.RequiredPolicy = func(f *idl.Field, x *idl.Val) *idl.Val {
		cat := idl.WireCat(f.Type)
		scalar := cat != "list" && cat != "set" && cat != "map" && cat != "struct"
		switch {
		case scalar && zeroRequired:
			return idl.ZeroOf(f.Type)
		case scalar:
			return x // current value
		}
		return &idl.Val{Cat: "unasserted"} // whether a sub-mask applies to it is not asserted
	}
	defer func() { fmref.RequiredPolicy = nil }()
	return fmref.Filter(v, &idl.Type{Name: d.Name, Ref: d}, m.Root, m.Black, "$", map[string]bool{})
}

// c13LooseDeep is kept for compatibility of call sites: rejected required fields are handled at any depth.
func c13LooseDeep(v *idl.Val, d *idl.Def, m *fmref.Mask) bool { return false }

func C13(r *vlib.Run) {
	r.Rule = "one evaluation = one Write or Read of a value of a with_field_mask type under a mask built from a generated path set (fields by name and id, list/set indices in and beyond range, present and absent int/string map keys, '*', nested combinations; white and black list) or under a nil mask, possibly as the second step on the same object, compared with the reference filter over the model value: well-formedness of the bytes (header counts), decoded value, object after Read; plus, for a list field of every program, all index subsets of lists of size 0..4 (thorough 0..6); distinct = (mode, step kind, field shape selected/rejected) signatures"
	r.Assume("a required field rejected by the mask is asserted only when it is a scalar (current value, or zero with field_mask_zero_required); field_mask_halfway with shared children is not generated")
	s, err := harness.NewScratch("c13")
	if err != nil {
		vlib.Fatal("C13", "scratch: %v", err)
	}
	defer s.Close()
	rng := vlib.NewRng(r.Seed, "c13")
	var units []*harness.Unit
	cfgs := [][]string{
		{"with_reflection", "with_field_mask"},
		{"with_reflection", "with_field_mask", "field_mask_halfway"},
		{"with_reflection", "with_field_mask", "field_mask_zero_required"},
	}
	n := 0
	add := func(p *idl.Program, opts []string) {
		n++
		units = append(units, &harness.Unit{Name: fmt.Sprintf("u%04d", n), Prog: p, Backend: "go", Opts: opts, Recurse: true})
	}
	np := r.N(36, 300)
	for i := 0; i < np; i++ {
		add(idl.Generate(rng.Fork("p"), c13Opts(rng)), cfgs[i%len(cfgs)])
	}
	ok := buildUnits(r, "C13", s, units)
	for _, u := range ok {
		tm, err := describe(u)
		if err != nil {
			r.Inconclusive(u.Name + ": " + err.Error())
			continue
		}
		c13Unit(r, rng.Fork(u.Name), u, tm)
	}
}

func c13Unit(r *vlib.Run, rng *vlib.Rng, u *harness.Unit, tm *typeMap) {
	cfg := optKey(u.Opts)
	zeroReq := strings.Contains(cfg, "field_mask_zero_required")
	var cmds []map[string]interface{}
	var cases []*c13Case
	nvals := r.N(4, 8)
	nmasks := r.N(9, 18)
	jsteps := func(c *c13Case, full []byte) []interface{} {
		var js []interface{}
		for _, st := range c.steps {
			m := map[string]interface{}{}
			switch st.kind {
			case "nil-write":
				m["nil"] = true
			default:
				var ps []interface{}
				for _, p := range st.mask.Paths {
					ps = append(ps, p)
				}
				m["paths"] = ps
				m["black"] = st.mask.Black
				if st.kind == "read" {
					m["read"] = hexOf(full)
				}
			}
			js = append(js, m)
		}
		return js
	}
	for _, d := range tm.defs {
		if tm.synth[d] || d.Kind != idl.KStruct || len(d.Fields) == 0 { // the mask library addresses structs only

			continue
		}
		key := tm.key[d]
		for k := 0; k < nvals; k++ {
			g := &idl.ValueGen{Rng: rng.Fork(d.Name), MaxDepth: 3, Mode: []int{2, 0, 2}[k%3]}
			v := g.GenStruct(d, 0)
			norm := idl.NormalizeWire(v)
			full, _ := refEncode(d, norm)
			for mi := 0; mi < nmasks; mi++ {
				black := mi%2 == 1
				m := fmref.Gen(&fmref.GenOpts{Rng: rng.Fork("m"), MaxDepth: 4, Value: norm}, d, black)
				if len(m.Paths) == 0 || c13LooseDeep(norm, d, m) {
					continue
				}
				exp := c13Expect(norm, d, m, zeroReq)
				c := &c13Case{def: d, v: v}
				switch mi % 3 {
				case 0:
					c.steps = []c13Step{{kind: "write", mask: m, expect: exp}}
				case 1:
					c.steps = []c13Step{{kind: "read", mask: m, expect: fmref.FilterRead(norm, &idl.Type{Name: d.Name, Ref: d}, m.Root, m.Black)}}
				case 2: // mask, then nil mask on the same object: nothing of the first mask may survive
					c.steps = []c13Step{{kind: "write", mask: m, expect: exp}}
					if !strings.Contains(cfg, "field_mask_halfway") { // halfway: children keep their own masks by design
						c.steps = append(c.steps, c13Step{kind: "nil-write", expect: norm})
					}
				}
				cmds = append(cmds, map[string]interface{}{"op": "mask", "type": key, "val": harness.ToJV(v), "steps": jsteps(c, full)})
				cases = append(cases, c)
			}
		}
		// every index subset of a top-level list of scalars
		for _, f := range d.Fields {
			ft := f.Type.Resolve()
			if idl.WireCat(ft) != "list" || harness.HasStruct(ft) || d.EffReq(f) == idl.ReqRequired {
				continue
			}
			maxN := r.N(4, 6)
			g := &idl.ValueGen{Rng: rng.Fork("idx" + d.Name), MaxDepth: 2, Mode: 0}
			base := g.GenStruct(d, 0)
			for n := 0; n <= maxN; n++ {
				lv := &idl.Val{Cat: "list", L: []*idl.Val{}}
				for i := 0; i < n; i++ {
					e := g.Gen(ft.Elem, 2)
					if e == nil {
						break
					}
					lv.L = append(lv.L, e)
				}
				if len(lv.L) != n {
					break
				}
				v := base.Clone()
				v.F[f.ID] = lv
				norm := idl.NormalizeWire(v)
				for sub := 0; sub < 1<<uint(n); sub++ {
					if sub == 0 {
						continue
					}
					var idx []string
					root := &fmref.Node{Kids: map[string]*fmref.Node{}}
					fn := &fmref.Node{Kids: map[string]*fmref.Node{}}
					root.Kids[strconv.Itoa(int(f.ID))] = fn
					for i := 0; i < n; i++ {
						if sub&(1<<uint(i)) != 0 {
							idx = append(idx, strconv.Itoa(i))
							fn.Kids[strconv.Itoa(i)] = &fmref.Node{Complete: true, Kids: map[string]*fmref.Node{}}
						}
					}
					seg := strconv.Itoa(int(f.ID))
					if f.ID < 0 {
						seg = f.Name // the path syntax has no negative ids
					}
					m := &fmref.Mask{Root: root, Def: d, Paths: []string{"$." + seg + "[" + strings.Join(idx, ",") + "]"}}
					exp := c13Expect(norm, d, m, zeroReq)
					c := &c13Case{def: d, v: v, steps: []c13Step{{kind: "write", mask: m, expect: exp, info: fmt.Sprintf("index subset %v of %d elements", idx, n)}}}
					cmds = append(cmds, map[string]interface{}{"op": "mask", "type": key, "val": harness.ToJV(v), "steps": jsteps(c, nil)})
					cases = append(cases, c)
				}
			}
			break
		}
	}
	if len(cmds) == 0 {
		return
	}
	res, fatal, last, stderr := u.RunGuest("c13", cmds)
	replay := func(c *c13Case, st *c13Step) vlib.Replay {
		rp := vlib.Replay{"options.txt": cfg + "\n"}
		for k, v := range u.Texts {
			rp["idl/"+k] = v
		}
		if c != nil {
			rp["value.txt"] = c.v.Canon() + "\n"
		}
		if st != nil && st.mask != nil {
			rp["paths.txt"] = fmt.Sprintf("black=%v\n%s\n", st.mask.Black, strings.Join(st.mask.Paths, "\n"))
		}
		return rp
	}
	if fatal != "" && fatal != "timeout" {
		var c *c13Case
		if last >= 0 && last < len(cases) {
			c = cases[last]
		}
		r.Violation("C13/process-death/"+fatal, fmt.Sprintf("config [%s]: guest died: %s", cfg, vlib.Trunc(stderr, 1200)), replay(c, nil))
	}
	for i, c := range cases {
		gr := res[i]
		if gr == nil {
			continue
		}
		if p := guestProblem(gr); p != "" {
			r.Count("harness_problems", 1)
			if r.Counter("harness_problems") <= 5 {
				fmt.Printf("NOTE property=C13 unit %s: harness problem: %s\n", u.Name, p)
			}
			continue
		}
		steps, _ := gr["steps"].([]interface{})
		for si := range c.steps {
			if si >= len(steps) {
				break
			}
			st := &c.steps[si]
			sr, _ := steps[si].(map[string]interface{})
			mode := "white"
			if st.mask != nil && st.mask.Black {
				mode = "black"
			}
			if st.kind == "nil-write" {
				mode = "nil"
			}
			pathsTxt := ""
			if st.mask != nil {
				pathsTxt = fmt.Sprintf(" paths=%v", st.mask.Paths)
			}
			bad := func(k, f string, a ...interface{}) {
				r.Violation("C13/"+mode+"/"+st.kind+"/"+k, fmt.Sprintf("config [%s] type %s step %d (%s)%s %s: ", cfg, c.def.Name, si, st.kind, pathsTxt, st.info)+fmt.Sprintf(f, a...)+"\n value: "+vlib.Trunc(c.v.Canon(), 700), replay(c, st))
			}
			r.Eval(1)
			if pn := strOf(sr["panic"]); pn != "" {
				bad("panic/"+panicKind(pn), "panic: %s\n%s", pn, vlib.Trunc(strOf(sr["stack"]), 700))
				continue
			}
			if me := strOf(sr["mask_err"]); me != "" {
				bad("valid-paths-rejected", "NewFieldMask rejects a valid path set: %s", me)
				continue
			}
			if e := strOf(sr["err"]); e != "" {
				bad("error", "%s failed: %s", st.kind, e)
				continue
			}
			switch st.kind {
			case "write", "nil-write":
				b := unhex(sr["bytes"])
				if err := refcodec.WellFormed(b); err != nil {
					bad("malformed", "bytes are not a well-formed encoding (a header count differs from the elements that follow?): %v\n bytes: %s", err, vlib.Trunc(hexOf(b), 400))
					continue
				}
				dec, err := refcodec.DecodeStruct(c.def, b)
				if err != nil {
					bad("undecodable/"+decodeKind(err), "%v", err)
					continue
				}
				exp := st.expect.Clone()
				raw := dec.Clone()
				harness.MaskUnasserted(exp, dec)
				if zeroReq && c13StripZeroDefaults(exp, dec) {
					r.Violation("C13/zero-required/non-required-field-written-as-zero", fmt.Sprintf("config [%s] type %s paths=%v: a field that is not required and that the mask rejects is omitted without field_mask_zero_required but written as zero with it (the option is documented for required fields)\n value: %s", cfg, c.def.Name, st.mask.Paths, vlib.Trunc(c.v.Canon(), 400)), replay(c, st))
				}
				if !idl.EqualWire(dec, exp) && st.mask != nil && st.mask.Black && fmref.HasTerminalStar(st.mask.Root) {
					fmref.TerminalBlackStarPasses = true
					alt := c13Expect(idl.NormalizeWire(c.v), c.def, st.mask, zeroReq)
					fmref.TerminalBlackStarPasses = false
					dec2 := raw.Clone()
					harness.MaskUnasserted(alt, dec2)
					if zeroReq {
						c13StripZeroDefaults(alt, dec2)
					}
					if idl.EqualWire(dec2, alt) {
						r.Violation("C13/black/path-ending-in-star-rejects-nothing", fmt.Sprintf("config [%s] type %s paths=%v: in black-list mode a path that ends in '*' ([*], {*}, .*) leaves every element in place instead of rejecting them\n want %s\n  got %s", cfg, c.def.Name, st.mask.Paths, vlib.Trunc(exp.Canon(), 400), vlib.Trunc(dec.Canon(), 400)), replay(c, st))
						c13Sigs(r, mode, st, c)
						continue
					}
				}
				if !idl.EqualWire(dec, exp) {
					bad("value/"+diffSite(c.def, exp, dec), "decoded value differs from the value restricted to the mask\n want %s\n  got %s", vlib.Trunc(exp.Canon(), 700), vlib.Trunc(dec.Canon(), 700))
					continue
				}
				if st.kind == "nil-write" {
					ref, _ := refEncode(c.def, st.expect)
					if len(ref) != len(b) {
						bad("length", "nil mask: %d bytes, code without masks writes %d", len(b), len(ref))
					}
				}
			case "read":
				if left, _ := sr["left"].(float64); left != 0 {
					bad("leftover", "%v bytes left unread", left)
				}
				obs, err := harness.FromJV(sr["val"], &idl.Type{Name: c.def.Name, Ref: c.def})
				if err != nil {
					bad("dump", "%v", err)
					continue
				}
				exp := harness.ObjState(st.expect)
				obsS := harness.ObjState(obs)
				harness.MaskUnasserted(exp, obsS)
				if harness.DeepCanon(exp) != harness.DeepCanon(obsS) && st.mask.Black && fmref.HasTerminalStar(st.mask.Root) {
					fmref.TerminalBlackStarPasses = true
					alt := harness.ObjState(fmref.FilterRead(idl.NormalizeWire(c.v), &idl.Type{Name: c.def.Name, Ref: c.def}, st.mask.Root, true))
					fmref.TerminalBlackStarPasses = false
					if harness.DeepCanon(alt) == harness.DeepCanon(obsS) {
						r.Violation("C13/black/path-ending-in-star-rejects-nothing", fmt.Sprintf("config [%s] type %s paths=%v (Read): in black-list mode a path that ends in '*' leaves every element in place", cfg, c.def.Name, st.mask.Paths), replay(c, st))
						c13Sigs(r, mode, st, c)
						continue
					}
				}
				if harness.DeepCanon(exp) != harness.DeepCanon(obsS) {
					bad("object/"+diffSite(c.def, exp, obsS), "object after Read under the mask differs from the selected part\n want %s\n  got %s", vlib.Trunc(exp.Canon(), 700), vlib.Trunc(obsS.Canon(), 700))
				}
			}
			c13Sigs(r, mode, st, c)
		}
		if i%401 == 0 && len(c.steps) > 0 && c.steps[0].mask != nil {
			r.Sample(map[string]interface{}{"type": c.def.Name, "paths": c.steps[0].mask.Paths, "black": c.steps[0].mask.Black, "value": vlib.Trunc(c.v.Canon(), 200)})
		}
	}
}

func c13Sigs(r *vlib.Run, mode string, st *c13Step, c *c13Case) {
	if st.mask == nil {
		r.Sigf("%s/%s", mode, st.kind)
		return
	}
	for _, p := range st.mask.Paths {
		shape := strings.Map(func(c rune) rune {
			switch {
			case c >= '0' && c <= '9':
				return 'n'
			case c >= 'a' && c <= 'z', c >= 'A' && c <= 'Z', c == '_':
				return 'a'
			}
			return c
		}, p)
		for strings.Contains(shape, "nn") {
			shape = strings.ReplaceAll(shape, "nn", "n")
		}
		for strings.Contains(shape, "aa") {
			shape = strings.ReplaceAll(shape, "aa", "a")
		}
		shape = strings.ReplaceAll(shape, "an", "a")
		shape = strings.ReplaceAll(shape, "na", "a")
		r.Sigf("%s/%s/path-shape/%s", mode, st.kind, vlib.Trunc(shape, 40))
	}
}

// c13StripZeroDefaults removes from dec every default-requiredness field that exp lacks and dec
// carries with the zero value (at any depth); it reports whether it removed something.
func c13StripZeroDefaults(exp, dec *idl.Val) bool {
	if exp == nil || dec == nil || exp.Cat != dec.Cat {
		return false
	}
	found := false
	switch exp.Cat {
	case "struct":
		for _, f := range dec.Def.Fields {
			y, yo := dec.F[f.ID]
			x, xo := exp.F[f.ID]
			if yo && !xo && dec.Def.EffReq(f) != idl.ReqRequired {
				z := idl.ZeroOf(f.Type)
				emptyStruct := y.Cat == "struct" && len(y.F) == 0
				if z != nil && idl.EqCanon(z) == idl.EqCanon(y) || emptyStruct {
					delete(dec.F, f.ID)
					found = true
				}
				continue
			}
			if yo && xo && c13StripZeroDefaults(x, y) {
				found = true
			}
		}
	case "list", "set":
		for i := range exp.L {
			if i < len(dec.L) && c13StripZeroDefaults(exp.L[i], dec.L[i]) {
				found = true
			}
		}
	case "map":
		idx := map[string]*idl.Val{}
		for _, e := range dec.M {
			idx[e[0].Canon()] = e[1]
		}
		for _, e := range exp.M {
			if y, ok := idx[e[0].Canon()]; ok && c13StripZeroDefaults(e[1], y) {
				found = true
			}
		}
	}
	return found
}
