// Package vlib holds the machinery shared by all property checks: verdict
// discipline, evidence, known findings, replay directories, seeded PRNG.
package vlib

import (
	"bufio"
	"crypto/sha256"
	"encoding/hex"
	"encoding/json"
	"fmt"
	"os"
	"path/filepath"
	"sort"
	"strconv"
	"strings"
	"sync"
	"time"
)

// Run is the state of one check execution (one property, one tier, one seed).
type Run struct {
	Prop  string
	Tier  string // quick | thorough
	Seed  int64
	Level string
	Rule  string
	start time.Time

	mu         sync.Mutex
	evals      int64
	sigs       map[string]int64
	samples    []interface{}
	maxSamples int
	counters   map[string]int64
	violations []violation
	knownSeen  map[string]bool
	known      []KnownFinding
	incon      int64
	assume     []string
	required   map[string]bool // coverage floor: signatures that must be observed
	extra      map[string]interface{}
	vioKeys    map[string]bool
}

type violation struct {
	Key    string
	Detail string
	Replay string
}

// KnownFinding is one line of /verif/known_findings.jsonl.
type KnownFinding struct {
	Status   string `json:"status"` // "known" or "fixed"
	Property string `json:"property"`
	Key      string `json:"key"`
	What     string `json:"what"`
	Exemplar string `json:"exemplar,omitempty"`
	Commit   string `json:"commit,omitempty"`
}

const Root = "/verif"

func NewRun(prop, tier string, level string) *Run {
	seed := int64(1)
	if s := os.Getenv("VERIF_SEED"); s != "" {
		if v, err := strconv.ParseInt(s, 10, 64); err == nil {
			seed = v
		}
	}
	r := &Run{Prop: prop, Tier: tier, Seed: seed, Level: level, start: time.Now(),
		sigs: map[string]int64{}, counters: map[string]int64{}, knownSeen: map[string]bool{},
		maxSamples: 6, required: map[string]bool{}, extra: map[string]interface{}{}, vioKeys: map[string]bool{}}
	r.loadKnown()
	return r
}

func (r *Run) Thorough() bool { return r.Tier == "thorough" }

// N picks a count by tier.
func (r *Run) N(quick, thorough int) int {
	if r.Thorough() {
		return thorough
	}
	return quick
}

func (r *Run) loadKnown() {
	f, err := os.Open(filepath.Join(Root, "known_findings.jsonl"))
	if err != nil {
		return
	}
	defer f.Close()
	sc := bufio.NewScanner(f)
	sc.Buffer(make([]byte, 1<<20), 1<<24)
	for sc.Scan() {
		line := strings.TrimSpace(sc.Text())
		if line == "" || strings.HasPrefix(line, "#") {
			continue
		}
		var k KnownFinding
		if err := json.Unmarshal([]byte(line), &k); err != nil {
			fmt.Fprintf(os.Stderr, "known_findings.jsonl: bad line: %v\n", err)
			continue
		}
		if k.Property == r.Prop && k.Status == "known" {
			r.known = append(r.known, k)
		}
	}
}

// Eval counts oracle comparisons.
func (r *Run) Eval(n int) {
	r.mu.Lock()
	r.evals += int64(n)
	r.mu.Unlock()
}

// Sig records a coverage signature actually observed by a monitor.
func (r *Run) Sig(sig string) {
	r.mu.Lock()
	r.sigs[sig]++
	r.mu.Unlock()
}

// Sigf is Sig with formatting.
func (r *Run) Sigf(f string, a ...interface{}) { r.Sig(fmt.Sprintf(f, a...)) }

func (r *Run) Count(name string, n int64) {
	r.mu.Lock()
	r.counters[name] += n
	r.mu.Unlock()
}

func (r *Run) Counter(name string) int64 {
	r.mu.Lock()
	defer r.mu.Unlock()
	return r.counters[name]
}

func (r *Run) Sample(s interface{}) {
	r.mu.Lock()
	if len(r.samples) < r.maxSamples {
		r.samples = append(r.samples, s)
	}
	r.mu.Unlock()
}

func (r *Run) Assume(s string) { r.assume = append(r.assume, s) }

func (r *Run) SetExtra(k string, v interface{}) {
	r.mu.Lock()
	r.extra[k] = v
	r.mu.Unlock()
}

// Require declares a coverage signature that the run must observe (coverage floor).
func (r *Run) Require(sigs ...string) {
	r.mu.Lock()
	for _, s := range sigs {
		r.required[s] = true
	}
	r.mu.Unlock()
}

// Inconclusive notes a case that could not be decided (watchdog etc.).
func (r *Run) Inconclusive(what string) {
	r.mu.Lock()
	r.incon++
	r.mu.Unlock()
	fmt.Printf("INCONCLUSIVE property=%s %s\n", r.Prop, what)
}

// Replay is a set of files saved for a violation.
type Replay map[string]string

// Violation reports a discrepancy with finding key `key`.  If the key is in the
// known-findings file it prints KNOWN-FINDING once; otherwise it is a violation.
// The key must be a stable ⟨site, difference-kind⟩ string, never free text.
func (r *Run) Violation(key, detail string, files Replay) {
	r.mu.Lock()
	defer r.mu.Unlock()
	for _, k := range r.known {
		if k.Key == key {
			if !r.knownSeen[key] {
				r.knownSeen[key] = true
				fmt.Printf("KNOWN-FINDING: property=%s %s [%s]\n", r.Prop, k.What, key)
			}
			r.counters["known_finding_hits"]++
			return
		}
	}
	r.counters["violation_events"]++
	max := 12
	if m, err := strconv.Atoi(os.Getenv("VERIF_MAXVIOL")); err == nil && m > 0 {
		max = m
	}
	if r.vioKeys[key] && (len(r.violations) >= 3 || max > 12) {
		return // same key already reported; keep output short
	}
	if len(r.violations) >= max {
		return
	}
	r.vioKeys[key] = true
	h := sha256.Sum256([]byte(key + "\x00" + detail))
	dir := filepath.Join(Root, "replays", r.Prop, hex.EncodeToString(h[:6]))
	os.MkdirAll(dir, 0o755)
	os.WriteFile(filepath.Join(dir, "KEY"), []byte(key+"\n"), 0o644)
	os.WriteFile(filepath.Join(dir, "DETAIL.txt"), []byte(detail+"\n"), 0o644)
	os.WriteFile(filepath.Join(dir, "ENV"), []byte(fmt.Sprintf("VERIF_SEED=%d VERIF_TIER=%s ./check %s %s\n", r.Seed, r.Tier, r.Prop, r.Tier)), 0o644)
	for name, content := range files {
		p := filepath.Join(dir, name)
		os.MkdirAll(filepath.Dir(p), 0o755)
		os.WriteFile(p, []byte(content), 0o644)
	}
	r.violations = append(r.violations, violation{Key: key, Detail: detail, Replay: dir})
	d := detail
	if len(d) > 600 {
		d = d[:600] + "…"
	}
	fmt.Printf("VIOLATION property=%s replay=%s\n  key: %s\n  %s\n", r.Prop, dir, key, strings.ReplaceAll(d, "\n", "\n  "))
}

// Finish writes the evidence file and returns the process exit status.
func (r *Run) Finish() int {
	r.mu.Lock()
	defer r.mu.Unlock()
	wall := time.Since(r.start).Seconds()
	var missing []string
	for s := range r.required {
		if r.sigs[s] == 0 {
			missing = append(missing, s)
		}
	}
	sort.Strings(missing)
	sigList := make([]string, 0, len(r.sigs))
	for s := range r.sigs {
		sigList = append(sigList, s)
	}
	sort.Strings(sigList)
	sigShow := sigList
	if len(sigShow) > 400 {
		sigShow = sigShow[:400]
	}
	known := make([]string, 0)
	for k := range r.knownSeen {
		known = append(known, k)
	}
	sort.Strings(known)
	cov := map[string]interface{}{
		"evaluations":            r.evals,
		"distinct_nontrivial":    len(r.sigs),
		"rule":                   r.Rule,
		"samples":                r.samples,
		"counters":               r.counters,
		"inconclusive":           r.incon,
		"signatures_observed":    sigShow,
		"required_signatures":    len(r.required),
		"required_missing":       missing,
		"known_findings_printed": known,
	}
	for k, v := range r.extra {
		cov[k] = v
	}
	if len(r.samples) == 0 {
		cov["samples"] = []interface{}{"(none)"}
	}
	evd := map[string]interface{}{
		"property_id": r.Prop,
		"tier":        r.Tier,
		"seed":        r.Seed,
		"level":       r.Level,
		"coverage":    cov,
		"assumptions": append([]string{"the reference semantics in DESIGN.md Appendix C are the intended reading of the property"}, r.assume...),
		"wall_s":      float64(int(wall*100)) / 100,
		"violations":  len(r.violations),
	}
	b, _ := json.MarshalIndent(evd, "", " ")
	os.MkdirAll(filepath.Join(Root, "evidence"), 0o755)
	tmp := filepath.Join(Root, "evidence", r.Prop+".json.tmp")
	os.WriteFile(tmp, append(b, '\n'), 0o644)
	os.Rename(tmp, filepath.Join(Root, "evidence", r.Prop+".json"))

	fmt.Printf("SUMMARY property=%s tier=%s seed=%d evaluations=%d distinct=%d violations=%d known=%d inconclusive=%d wall=%.1fs\n",
		r.Prop, r.Tier, r.Seed, r.evals, len(r.sigs), len(r.violations), len(r.knownSeen), r.incon, wall)
	if len(r.violations) > 0 {
		return 1
	}
	if r.evals == 0 || len(r.sigs) < 2 {
		fmt.Printf("MACHINERY-FAILURE property=%s monitors observed nothing (evaluations=%d distinct=%d)\n", r.Prop, r.evals, len(r.sigs))
		return 2
	}
	if len(missing) > 0 {
		fmt.Printf("MACHINERY-FAILURE property=%s coverage floor missed %d required signatures, e.g. %v\n", r.Prop, len(missing), head(missing, 8))
		return 2
	}
	return 0
}

func head(s []string, n int) []string {
	if len(s) > n {
		return s[:n]
	}
	return s
}

// Fatal is a machinery failure: exit 2, never a VIOLATION line.
func Fatal(prop string, f string, a ...interface{}) {
	fmt.Printf("MACHINERY-FAILURE property=%s %s\n", prop, fmt.Sprintf(f, a...))
	os.Exit(2)
}
