package vlib

import (
	"bytes"
	"context"
	"crypto/sha256"
	"encoding/hex"
	"os"
	"os/exec"
	"path/filepath"
	"regexp"
	"sort"
	"strings"
	"syscall"
	"time"
)

// CLIResult is the observation of one process run (E3).
type CLIResult struct {
	Exit     int // -1: killed by watchdog / signal
	TimedOut bool
	Stdout   string
	Stderr   string
	Crash    string // non-empty: crash-trace classification ("panic", "fatal error", "goroutine dump", "recovered panic")
}

var crashRes = []struct {
	kind string
	re   *regexp.Regexp
}{
	{"fatal error", regexp.MustCompile(`(?m)^fatal error: `)},
	{"panic", regexp.MustCompile(`(?m)^panic: `)},
	{"recovered panic", regexp.MustCompile(`Recovered from panic`)},
	{"goroutine dump", regexp.MustCompile(`(?m)^goroutine \d+ \[`)},
	{"runtime frames", regexp.MustCompile(`(?m)^\s+/.*\.go:\d+ \+0x[0-9a-f]+`)},
	{"runtime error", regexp.MustCompile(`runtime error: `)},
}

// ClassifyCrash returns the crash-trace kind found in the text, or "".
func ClassifyCrash(text string) string {
	for _, c := range crashRes {
		if c.re.MatchString(text) {
			return c.kind
		}
	}
	return ""
}

// RunCLI runs a binary with a generous watchdog (inconclusive when it fires, unless the
// SIGQUIT dump decides). The child gets its own process group, which is killed on timeout.
func RunCLI(dir string, env []string, timeout time.Duration, bin string, args ...string) CLIResult {
	ctx, cancel := context.WithTimeout(context.Background(), timeout)
	defer cancel()
	cmd := exec.Command(bin, args...)
	cmd.Dir = dir
	cmd.Env = append(os.Environ(), env...)
	cmd.SysProcAttr = &syscall.SysProcAttr{Setpgid: true}
	var so, se bytes.Buffer
	cmd.Stdout = &so
	cmd.Stderr = &se
	res := CLIResult{}
	if err := cmd.Start(); err != nil {
		res.Exit = -2
		res.Stderr = err.Error()
		return res
	}
	done := make(chan error, 1)
	go func() { done <- cmd.Wait() }()
	select {
	case err := <-done:
		if err != nil {
			if ee, ok := err.(*exec.ExitError); ok {
				res.Exit = ee.ExitCode()
			} else {
				res.Exit = -2
			}
		}
	case <-ctx.Done():
		res.TimedOut = true
		syscall.Kill(-cmd.Process.Pid, syscall.SIGQUIT)
		select {
		case <-done:
		case <-time.After(5 * time.Second):
			syscall.Kill(-cmd.Process.Pid, syscall.SIGKILL)
			<-done
		}
		res.Exit = -1
	}
	res.Stdout = so.String()
	res.Stderr = se.String()
	res.Crash = ClassifyCrash(res.Stdout + "\n" + res.Stderr)
	return res
}

// Tree returns path -> sha256 for every regular file under dir (relative paths).
func Tree(dir string) map[string]string {
	out := map[string]string{}
	filepath.Walk(dir, func(p string, info os.FileInfo, err error) error {
		if err != nil || info.IsDir() {
			return nil
		}
		rel, _ := filepath.Rel(dir, p)
		b, err := os.ReadFile(p)
		if err != nil {
			out[rel] = "unreadable"
			return nil
		}
		h := sha256.Sum256(b)
		out[rel] = hex.EncodeToString(h[:])
		return nil
	})
	return out
}

// TreeFiles lists relative paths of files under dir, sorted.
func TreeFiles(dir string) []string {
	var fs []string
	for p := range Tree(dir) {
		fs = append(fs, p)
	}
	sort.Strings(fs)
	return fs
}

// WriteFiles writes a map of relative path -> content under dir.
func WriteFiles(dir string, files map[string]string) error {
	for name, content := range files {
		p := filepath.Join(dir, name)
		if err := os.MkdirAll(filepath.Dir(p), 0o755); err != nil {
			return err
		}
		if err := os.WriteFile(p, []byte(content), 0o644); err != nil {
			return err
		}
	}
	return nil
}

// ScratchBase returns a fresh scratch directory (tmpfs when available); caller removes it.
func ScratchBase(prefix string) string {
	base := "/dev/shm"
	if st, err := os.Stat(base); err != nil || !st.IsDir() {
		base = os.TempDir()
	}
	d, err := os.MkdirTemp(base, prefix)
	if err != nil {
		d, _ = os.MkdirTemp("", prefix)
	}
	return d
}

// Bin returns the path of a binary built by ./check for this run.
func Bin(name string) string { return filepath.Join(os.Getenv("VERIF_BIN"), name) }

func Trunc(s string, n int) string {
	if len(s) > n {
		return s[:n] + "…"
	}
	return s
}

func FirstLine(s string) string {
	s = strings.TrimSpace(s)
	if i := strings.IndexByte(s, '\n'); i >= 0 {
		return s[:i]
	}
	return s
}
