package vlib

import (
	"os"
	"path/filepath"
	"regexp"
	"sort"
	"strings"
)

// RaceReport is one "WARNING: DATA RACE" block from a GORACE log_path file.
type RaceReport struct {
	Text     string
	Key      string // dedup key: sorted pair of innermost repo frames of the two accesses
	InRepo   bool   // some frame lies in github.com/cloudwego/thriftgo
	RepoFunc []string
}

var frameRe = regexp.MustCompile(`(?m)^  ([^\s(]+)\(`)

// ReadRaceLogs parses every file matching prefix.* and returns de-duplicated reports.
func ReadRaceLogs(prefix string) []RaceReport {
	files, _ := filepath.Glob(prefix + ".*")
	seen := map[string]bool{}
	var out []RaceReport
	for _, f := range files {
		b, err := os.ReadFile(f)
		if err != nil {
			continue
		}
		blocks := strings.Split(string(b), "==================")
		for _, blk := range blocks {
			if !strings.Contains(blk, "WARNING: DATA RACE") {
				continue
			}
			rep := RaceReport{Text: blk}
			// split into access sections; take the first repo frame of each of the first two stacks
			secs := regexp.MustCompile(`(?m)^(Read|Write|Previous read|Previous write|Goroutine)[^\n]*\n`).Split(blk, -1)
			var keyParts []string
			for i, s := range secs {
				if i == 0 || i > 2 {
					continue
				}
				first := ""
				for _, m := range frameRe.FindAllStringSubmatch(s, -1) {
					fn := m[1]
					if strings.Contains(fn, "github.com/cloudwego/thriftgo") {
						rep.InRepo = true
						rep.RepoFunc = append(rep.RepoFunc, fn)
						if first == "" {
							first = fn
						}
					}
				}
				keyParts = append(keyParts, first)
			}
			for _, m := range frameRe.FindAllStringSubmatch(blk, -1) {
				if strings.Contains(m[1], "github.com/cloudwego/thriftgo") {
					rep.InRepo = true
				}
			}
			sort.Strings(keyParts)
			rep.Key = strings.Join(keyParts, "|")
			if seen[rep.Key] {
				continue
			}
			seen[rep.Key] = true
			out = append(out, rep)
		}
	}
	return out
}
