package vlib

import (
	"hash/fnv"
)

// Rng is a small deterministic PRNG (splitmix64).  Case lists are a pure function of
// (VERIF_SEED, property, stream name, index) — never of time.
type Rng struct{ s uint64 }

func NewRng(seed int64, stream ...string) *Rng {
	h := fnv.New64a()
	for _, s := range stream {
		h.Write([]byte(s))
		h.Write([]byte{0})
	}
	r := &Rng{s: uint64(seed)*0x9E3779B97F4A7C15 ^ h.Sum64()}
	r.Uint64()
	return r
}

func (r *Rng) Uint64() uint64 {
	r.s += 0x9E3779B97F4A7C15
	z := r.s
	z = (z ^ (z >> 30)) * 0xBF58476D1CE4E5B9
	z = (z ^ (z >> 27)) * 0x94D049BB133111EB
	return z ^ (z >> 31)
}

// Intn returns a value in [0,n).
func (r *Rng) Intn(n int) int {
	if n <= 0 {
		return 0
	}
	return int(r.Uint64() % uint64(n))
}

// Range returns a value in [lo,hi].
func (r *Rng) Range(lo, hi int) int { return lo + r.Intn(hi-lo+1) }

func (r *Rng) Bool() bool { return r.Uint64()&1 == 1 }

// Chance returns true with probability num/den.
func (r *Rng) Chance(num, den int) bool { return r.Intn(den) < num }

func (r *Rng) Pick(ss []string) string { return ss[r.Intn(len(ss))] }

func (r *Rng) Perm(n int) []int {
	p := make([]int, n)
	for i := range p {
		p[i] = i
	}
	for i := n - 1; i > 0; i-- {
		j := r.Intn(i + 1)
		p[i], p[j] = p[j], p[i]
	}
	return p
}

func (r *Rng) Bytes(n int) []byte {
	b := make([]byte, n)
	for i := range b {
		b[i] = byte(r.Uint64())
	}
	return b
}

// Fork derives an independent stream.
func (r *Rng) Fork(name string) *Rng {
	h := fnv.New64a()
	h.Write([]byte(name))
	return &Rng{s: r.Uint64() ^ h.Sum64()}
}

// Hash64 is FNV-1a of a string (used for coverage signatures).
func Hash64(s string) uint64 {
	h := fnv.New64a()
	h.Write([]byte(s))
	return h.Sum64()
}
