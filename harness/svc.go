package harness

import (
	"fmt"
	"go/ast"
	"sort"
	"strings"
)

var goBuiltins = map[string]bool{"bool": true, "string": true, "int": true, "int8": true, "int16": true, "int32": true, "int64": true, "uint8": true,
	"float64": true, "float32": true, "byte": true, "error": true, "any": true}

// ServiceInfo describes one generated service found by scanning the generated code.
type ServiceInfo struct {
	Key     string // "<pkg dir>.<Interface>"
	Pkg     int
	Iface   string
	Handler string
}

// AddServiceDriver appends handler stubs (signatures copied from the generated interfaces) and
// service registrations to the unit's driver.  It returns the services found.
func (u *Unit) AddServiceDriver() []ServiceInfo {
	aliasOf := map[string]string{}
	for i, p := range u.Pkgs {
		aliasOf[p.Import] = fmt.Sprintf("g%d", i)
	}
	// locate interfaces that have both constructors
	type svc struct {
		pkg   int
		name  string
		it    *ast.InterfaceType
		file  *ast.File
		hname string
	}
	var svcs []*svc
	byKey := map[string]*svc{}
	for i, p := range u.Pkgs {
		var names []string
		for n := range p.Ifaces {
			names = append(names, n)
		}
		sort.Strings(names)
		for _, n := range names {
			if !p.FuncSet["New"+n+"Client"] || !p.FuncSet["New"+n+"Processor"] {
				continue
			}
			var file *ast.File
			for _, f := range p.Files {
				for _, d := range f.Decls {
					if gd, ok := d.(*ast.GenDecl); ok {
						for _, sp := range gd.Specs {
							if ts, ok := sp.(*ast.TypeSpec); ok && ts.Name.Name == n {
								file = f
							}
						}
					}
				}
			}
			s := &svc{pkg: i, name: n, it: p.Ifaces[n], file: file, hname: fmt.Sprintf("h%d_%s", i, n)}
			svcs = append(svcs, s)
			byKey[p.Import+"."+n] = s
		}
	}
	if len(svcs) == 0 {
		return nil
	}
	var sb strings.Builder
	var infos []ServiceInfo
	for _, s := range svcs {
		p := u.Pkgs[s.pkg]
		imports := map[string]string{}
		if s.file != nil {
			for _, im := range s.file.Imports {
				path := strings.Trim(im.Path.Value, "\"")
				name := path[strings.LastIndex(path, "/")+1:]
				if im.Name != nil {
					name = im.Name.Name
				}
				imports[name] = path
			}
		}
		var expr func(e ast.Expr) string
		expr = func(e ast.Expr) string {
			switch x := e.(type) {
			case *ast.Ident:
				if goBuiltins[x.Name] {
					return x.Name
				}
				return aliasOf[p.Import] + "." + x.Name
			case *ast.StarExpr:
				return "*" + expr(x.X)
			case *ast.ArrayType:
				return "[]" + expr(x.Elt)
			case *ast.MapType:
				return "map[" + expr(x.Key) + "]" + expr(x.Value)
			case *ast.SelectorExpr:
				if id, ok := x.X.(*ast.Ident); ok {
					path := imports[id.Name]
					if path == "context" {
						return "context." + x.Sel.Name
					}
					if a, ok := aliasOf[path]; ok {
						return a + "." + x.Sel.Name
					}
					return id.Name + "." + x.Sel.Name
				}
			case *ast.InterfaceType:
				return "interface{}"
			}
			return "UNSUPPORTED_TYPE_EXPR"
		}
		key := p.Dir + "." + s.name
		fmt.Fprintf(&sb, "\ntype %s struct {\n", s.hname)
		var methods []*ast.Field
		for _, m := range s.it.Methods.List {
			if len(m.Names) == 0 { // embedded base service
				var base *svc
				switch x := m.Type.(type) {
				case *ast.Ident:
					base = byKey[p.Import+"."+x.Name]
				case *ast.SelectorExpr:
					if id, ok := x.X.(*ast.Ident); ok {
						base = byKey[imports[id.Name]+"."+x.Sel.Name]
					}
				}
				if base != nil {
					fmt.Fprintf(&sb, "\t%s\n", base.hname)
				} else {
					fmt.Fprintf(&sb, "\t%s // base handler not found\n", expr(m.Type))
				}
				continue
			}
			methods = append(methods, m)
		}
		sb.WriteString("}\n")
		for _, m := range methods {
			ft, ok := m.Type.(*ast.FuncType)
			if !ok {
				continue
			}
			var params, argNames []string
			n := 0
			for _, prm := range ft.Params.List {
				cnt := len(prm.Names)
				if cnt == 0 {
					cnt = 1
				}
				for k := 0; k < cnt; k++ {
					name := fmt.Sprintf("a%d", n)
					n++
					params = append(params, name+" "+expr(prm.Type))
					argNames = append(argNames, name)
				}
			}
			var results []string
			nres := 0
			if ft.Results != nil {
				for _, rs := range ft.Results.List {
					cnt := len(rs.Names)
					if cnt == 0 {
						cnt = 1
					}
					for k := 0; k < cnt; k++ {
						results = append(results, fmt.Sprintf("r%d %s", nres, expr(rs.Type)))
						nres++
					}
				}
			}
			// the first parameter is the context
			args := "nil"
			if len(argNames) > 1 {
				args = "[]interface{}{" + strings.Join(argNames[1:], ", ") + "}"
			}
			ret := "nil"
			if nres == 2 {
				ret = "[]interface{}{&r0}"
			}
			fmt.Fprintf(&sb, "func (h %s) %s(%s) (%s) {\n\tr%d = guest.Handle(%q, %q, %s, %s)\n\treturn\n}\n", s.hname, m.Names[0].Name, strings.Join(params, ", "), strings.Join(results, ", "), nres-1, key, m.Names[0].Name, args, ret)
		}
		infos = append(infos, ServiceInfo{Key: key, Pkg: s.pkg, Iface: s.name, Handler: s.hname})
	}
	sb.WriteString("\nvar _ context.Context\nvar _ thrift.TClient\n\nfunc init() {\n")
	for _, s := range svcs {
		p := u.Pkgs[s.pkg]
		a := aliasOf[p.Import]
		fmt.Fprintf(&sb, "\tguest.RegisterService(%q, func(c thrift.TClient) interface{} { return %s.New%sClient(c) }, func() thrift.TProcessor { return %s.New%sProcessor(%s{}) })\n",
			p.Dir+"."+s.name, a, s.name, a, s.name, s.hname)
	}
	sb.WriteString("}\n")
	u.ExtraDrv += sb.String()
	u.ExtraImp = append(u.ExtraImp, "\"context\"", "\"github.com/apache/thrift/lib/go/thrift\"")
	return infos
}
