// Package harness runs the real thriftgo front end / generators on rendered models.
package harness

import (
	"fmt"
	"os"
	"path/filepath"

	"github.com/cloudwego/thriftgo/parser"
	"github.com/cloudwego/thriftgo/semantic"

	"verif/idl"
)

// WriteProgram renders the program under dir.
func WriteProgram(dir string, p *idl.Program, l *idl.Layout) (map[string]string, error) {
	texts := idl.RenderProgram(p, l)
	for name, txt := range texts {
		fp := filepath.Join(dir, name)
		if err := os.MkdirAll(filepath.Dir(fp), 0o755); err != nil {
			return nil, err
		}
		if err := os.WriteFile(fp, []byte(txt), 0o644); err != nil {
			return nil, err
		}
	}
	return texts, nil
}

// Frontend is what thriftgo does before generating: parse recursively, include-cycle check,
// semantic check, symbol resolution.  stage names the step that failed.
func Frontend(mainPath string) (ast *parser.Thrift, stage string, err error) {
	return FrontendInc(mainPath, nil)
}

// FrontendInc is Frontend with include search directories (-i).
func FrontendInc(mainPath string, includeDirs []string) (ast *parser.Thrift, stage string, err error) {
	defer func() {
		if e := recover(); e != nil {
			err = fmt.Errorf("PANIC in %s: %v", stage, e)
		}
	}()
	stage = "parse"
	ast, err = parser.ParseFile(mainPath, includeDirs, true)
	if err != nil {
		return nil, stage, err
	}
	stage = "circle"
	if path := parser.CircleDetect(ast); len(path) > 0 {
		return nil, stage, fmt.Errorf("include circle: %s", path)
	}
	stage = "check"
	checker := semantic.NewChecker(semantic.Options{FixWarnings: true})
	if _, err = checker.CheckAll(ast); err != nil {
		return nil, stage, err
	}
	stage = "resolve"
	if err = semantic.ResolveSymbols(ast); err != nil {
		return nil, stage, err
	}
	return ast, "", nil
}

// MapASTs pairs every model file with its AST by walking the include graph in parallel.
func MapASTs(p *idl.Program, root *parser.Thrift) (map[*idl.File]*parser.Thrift, error) {
	out := map[*idl.File]*parser.Thrift{}
	var walk func(f *idl.File, a *parser.Thrift) error
	walk = func(f *idl.File, a *parser.Thrift) error {
		if a == nil {
			return fmt.Errorf("no AST for %s", f.Path)
		}
		if prev, ok := out[f]; ok {
			if prev != a {
				return fmt.Errorf("file %s parsed twice into different ASTs (shared include not shared)", f.Path)
			}
			return nil
		}
		out[f] = a
		if len(a.Includes) != len(f.Includes) {
			return fmt.Errorf("%s: %d includes in AST, %d in model", f.Path, len(a.Includes), len(f.Includes))
		}
		for i, inc := range f.Includes {
			if err := walk(inc.File, a.Includes[i].Reference); err != nil {
				return err
			}
		}
		return nil
	}
	return out, walk(p.Files[0], root)
}
