package harness

import (
	"fmt"
	"go/ast"
	"sort"
	"strings"
)

// ReflInfo lists what AddReflectionDriver registered.
type ReflInfo struct {
	FileFuncs []string // "<pkgdir>.GetFileDescriptorForX"
	Enums     []string // "<pkgdir>.<GoEnumType>"
}

// AddReflectionDriver registers the GetFileDescriptorFor* functions and the enum types (receivers of a
// GetDescriptor method returning an EnumDescriptor) of every generated package with the guest.
func (u *Unit) AddReflectionDriver() ReflInfo {
	var info ReflInfo
	var sb strings.Builder
	sb.WriteString("\nfunc init() {\n")
	for i, p := range u.Pkgs {
		var fns []string
		for fn := range p.FuncSet {
			if strings.HasPrefix(fn, "GetFileDescriptorFor") {
				fns = append(fns, fn)
			}
		}
		sort.Strings(fns)
		for _, fn := range fns {
			key := p.Dir + "." + fn
			fmt.Fprintf(&sb, "\tguest.RegisterFileDesc(%q, func() interface{} { return g%d.%s() })\n", key, i, fn)
			info.FileFuncs = append(info.FileFuncs, key)
		}
		enums := map[string]bool{}
		for _, f := range p.Files {
			for _, d := range f.Decls {
				fd, ok := d.(*ast.FuncDecl)
				if !ok || fd.Recv == nil || fd.Name.Name != "GetDescriptor" || fd.Type.Results == nil || len(fd.Type.Results.List) != 1 {
					continue
				}
				star, ok := fd.Type.Results.List[0].Type.(*ast.StarExpr)
				if !ok {
					continue
				}
				sel, ok := star.X.(*ast.SelectorExpr)
				if !ok || sel.Sel.Name != "EnumDescriptor" {
					continue
				}
				if id, ok := fd.Recv.List[0].Type.(*ast.Ident); ok {
					enums[id.Name] = true
				}
			}
		}
		var ens []string
		for e := range enums {
			ens = append(ens, e)
		}
		sort.Strings(ens)
		for _, e := range ens {
			key := p.Dir + "." + e
			fmt.Fprintf(&sb, "\tguest.RegisterEnum(%q, func() interface{} { return new(g%d.%s) })\n", key, i, e)
			info.Enums = append(info.Enums, key)
		}
	}
	sb.WriteString("}\n")
	u.ExtraDrv += sb.String()
	return info
}
