package harness

import (
	"bufio"
	"bytes"
	_ "embed"
	"encoding/json"
	"fmt"
	"go/ast"
	goparser "go/parser"
	"go/token"
	"os"
	"os/exec"
	"path/filepath"
	"regexp"
	"sort"
	"strings"
	"sync"
	"time"

	"verif/idl"
	"verif/vlib"
)

// Scratch is one scratch Go module holding generated code of many units plus their drivers.
type Scratch struct {
	Dir   string
	Units []*Unit
	Race  bool
	Env   []string
}

// Unit is one (program, configuration) pair generated into the scratch module.
type Unit struct {
	Name    string
	Prog    *idl.Program
	Backend string   // "go" or "fastgo"
	Opts    []string // backend options (package_prefix is added by the harness)
	Recurse bool
	Layout  *idl.Layout
	Texts   map[string]string

	Dir          string // <scratch>/<name>
	GenRes       vlib.CLIResult
	GoFiles      []string // relative to Dir/gen
	SyntaxEr     []string
	Pkgs         []*GenPkg
	BuildErr     []string // compiler diagnostics attributed to this unit's generated packages
	DrvErr       []string // diagnostics in the driver only
	Bin          string
	Tag          string // free label (e.g. name of a known-finding exemplar)
	ExtraDrv     string // extra Go source appended to the driver (ops specific to a property)
	ExtraImp     []string
	WantServices bool // generate handler stubs and service registrations
	WantRefl     bool // register file descriptor functions and enum types (with_reflection)
	Refl         ReflInfo
	Services     []ServiceInfo // filled by AddServiceDriver
}

type GenPkg struct {
	Dir     string // relative to gen/
	Import  string
	Name    string
	Ctors   []string // T for every `func NewT() *T`
	Values  []string // exported top-level const/var names
	Ifaces  map[string]*ast.InterfaceType
	FuncSet map[string]bool
	Files   map[string]*ast.File
	Fset    *token.FileSet
}

const guestImport = "scratch/guest"

var guestSrc map[string][]byte

func init() {
	files, _ := filepath.Glob(filepath.Join(vlib.Root, "guest", "*.go"))
	for _, f := range files {
		if strings.HasSuffix(f, "_test.go") {
			continue
		}
		if b, err := os.ReadFile(f); err == nil {
			if guestSrc == nil {
				guestSrc = map[string][]byte{}
			}
			guestSrc[filepath.Base(f)] = b
		}
	}
}

func NewScratch(tag string) (*Scratch, error) {
	dir := vlib.ScratchBase("vf-" + tag + "-")
	s := &Scratch{Dir: dir}
	gomod := "module scratch\n\ngo 1.20\n\nrequire (\n\tgithub.com/apache/thrift v0.13.0\n\tgithub.com/cloudwego/gopkg v0.2.0\n\tgithub.com/cloudwego/thriftgo v0.0.0\n)\n\nreplace github.com/cloudwego/thriftgo => " + repoDir() + "\n"
	if err := os.WriteFile(filepath.Join(dir, "go.mod"), []byte(gomod), 0o644); err != nil {
		return nil, err
	}
	var sum []byte
	for _, p := range []string{filepath.Join(repoDir(), "go.sum"), filepath.Join(vlib.Root, "go.sum")} {
		if b, err := os.ReadFile(p); err == nil {
			sum = append(sum, b...)
		}
	}
	os.WriteFile(filepath.Join(dir, "go.sum"), sum, 0o644)
	if guestSrc == nil {
		return nil, fmt.Errorf("guest source not found under %s/guest", vlib.Root)
	}
	os.MkdirAll(filepath.Join(dir, "guest"), 0o755)
	for name, b := range guestSrc {
		os.WriteFile(filepath.Join(dir, "guest", name), b, 0o644)
	}
	cache := filepath.Join(vlib.Root, ".cache", "gobuild")
	os.MkdirAll(cache, 0o755)
	s.Env = []string{"GOFLAGS=-mod=mod", "GOPROXY=off", "GOSUMDB=off", "GOTOOLCHAIN=local", "GOCACHE=" + cache, "GOWORK=off"}
	return s, nil
}

func repoDir() string {
	if d := os.Getenv("VERIF_REPO"); d != "" {
		return d
	}
	return "/repo"
}

func (s *Scratch) Close() {
	if os.Getenv("VERIF_KEEP") != "" {
		fmt.Println("KEEPING scratch dir", s.Dir)
	} else {
		os.RemoveAll(s.Dir)
	}
	// keep the dedicated build cache bounded
	cache := filepath.Join(vlib.Root, ".cache", "gobuild")
	var size int64
	filepath.Walk(cache, func(_ string, info os.FileInfo, err error) error {
		if err == nil && !info.IsDir() {
			size += info.Size()
		}
		return nil
	})
	if size > 6<<30 {
		os.RemoveAll(cache)
	}
}

// Generate renders the unit's IDL and runs the real thriftgo binary on it.
func (s *Scratch) Generate(u *Unit) {
	u.Dir = filepath.Join(s.Dir, u.Name)
	idlDir := filepath.Join(u.Dir, "idl")
	os.MkdirAll(idlDir, 0o755)
	if u.Layout == nil {
		u.Layout = idl.PlainLayout()
	}
	if u.Texts == nil {
		u.Texts, _ = WriteProgram(idlDir, u.Prog, u.Layout)
	} else {
		vlib.WriteFiles(idlDir, u.Texts)
	}
	if u.Backend == "" {
		u.Backend = "go"
	}
	opts := append([]string{}, u.Opts...)
	opts = append(opts, "package_prefix=scratch/"+u.Name+"/gen")
	args := []string{"-g", u.Backend + ":" + strings.Join(opts, ","), "-o", filepath.Join(u.Dir, "gen")}
	if u.Recurse {
		args = append(args, "-r")
		args = append(args, filepath.Join(idlDir, "main.thrift"))
		u.GenRes = vlib.RunCLI(u.Dir, nil, 120*time.Second, vlib.Bin("thriftgo"), args...)
	} else {
		// without -r the complete set of packages comes from one run per file of the program
		for i, f := range u.Prog.Files {
			a := append(append([]string{}, args...), filepath.Join(idlDir, f.Path))
			res := vlib.RunCLI(u.Dir, nil, 120*time.Second, vlib.Bin("thriftgo"), a...)
			if i == 0 || res.Exit != 0 || res.TimedOut {
				if i > 0 {
					res.Stderr = "(file " + f.Path + ") " + res.Stderr
				}
				u.GenRes = res
			} else {
				u.GenRes.Stderr += res.Stderr
				u.GenRes.Stdout += res.Stdout
			}
			if res.Exit != 0 || res.TimedOut {
				break
			}
		}
	}
	s.Units = append(s.Units, u)
}

// Scan parses every generated .go file (syntax check) and collects what drivers need.
func (u *Unit) Scan() {
	gen := filepath.Join(u.Dir, "gen")
	u.GoFiles = nil
	byDir := map[string]*GenPkg{}
	for _, rel := range vlib.TreeFiles(gen) {
		if !strings.HasSuffix(rel, ".go") {
			continue
		}
		u.GoFiles = append(u.GoFiles, rel)
		fset := token.NewFileSet()
		af, err := goparser.ParseFile(fset, filepath.Join(gen, rel), nil, goparser.ParseComments)
		if err != nil {
			u.SyntaxEr = append(u.SyntaxEr, rel+": "+vlib.FirstLine(err.Error()))
			continue
		}
		dir := filepath.Dir(rel)
		p := byDir[dir]
		if p == nil {
			p = &GenPkg{Dir: dir, Import: "scratch/" + u.Name + "/gen/" + filepath.ToSlash(dir), Name: af.Name.Name, Ifaces: map[string]*ast.InterfaceType{}, FuncSet: map[string]bool{}, Files: map[string]*ast.File{}, Fset: fset}
			byDir[dir] = p
		}
		p.Files[rel] = af
		structs := map[string]bool{}
		for _, d := range af.Decls {
			switch x := d.(type) {
			case *ast.GenDecl:
				for _, sp := range x.Specs {
					switch ts := sp.(type) {
					case *ast.TypeSpec:
						switch t := ts.Type.(type) {
						case *ast.StructType:
							structs[ts.Name.Name] = true
						case *ast.InterfaceType:
							p.Ifaces[ts.Name.Name] = t
						case *ast.Ident, *ast.SelectorExpr:
							structs[ts.Name.Name] = true // alias/defined type of something: constructor decides
						}
					case *ast.ValueSpec:
						for _, n := range ts.Names {
							if n.IsExported() {
								p.Values = append(p.Values, n.Name)
							}
						}
					}
				}
			case *ast.FuncDecl:
				if x.Recv == nil {
					p.FuncSet[x.Name.Name] = true
				}
			}
		}
		for _, d := range af.Decls {
			fd, ok := d.(*ast.FuncDecl)
			if !ok || fd.Recv != nil || !strings.HasPrefix(fd.Name.Name, "New") || fd.Type.Params.NumFields() != 0 || fd.Type.Results.NumFields() != 1 {
				continue
			}
			st, ok := fd.Type.Results.List[0].Type.(*ast.StarExpr)
			if !ok {
				continue
			}
			id, ok := st.X.(*ast.Ident)
			if !ok {
				continue
			}
			p.Ctors = append(p.Ctors, id.Name+"\x00"+fd.Name.Name)
		}
	}
	var dirs []string
	for d := range byDir {
		dirs = append(dirs, d)
	}
	sort.Strings(dirs)
	u.Pkgs = nil
	for _, d := range dirs {
		sort.Strings(byDir[d].Ctors)
		sort.Strings(byDir[d].Values)
		u.Pkgs = append(u.Pkgs, byDir[d])
	}
}

// WriteDriver writes <unit>/drv_<unit>/main.go registering every constructor and value.
func (u *Unit) WriteDriver() error {
	var sb strings.Builder
	sb.WriteString("package main\n\nimport (\n\tguest \"" + guestImport + "\"\n")
	for _, imp := range u.ExtraImp {
		sb.WriteString("\t" + imp + "\n")
	}
	used := 0
	for i, p := range u.Pkgs {
		if len(p.Ctors) == 0 && len(p.Values) == 0 && len(p.FuncSet) == 0 {
			continue
		}
		used++
		fmt.Fprintf(&sb, "\tg%d %q\n", i, p.Import)
	}
	sb.WriteString(")\n\nfunc init() {\n")
	for i, p := range u.Pkgs {
		for _, c := range p.Ctors {
			parts := strings.SplitN(c, "\x00", 2)
			t, fn := parts[0], parts[1]
			if !isStructLikeCtor(p, t) {
				continue
			}
			fmt.Fprintf(&sb, "\tguest.RegisterStruct(%q, func() interface{} { return g%d.%s() }, func() interface{} { return new(g%d.%s) })\n", p.Dir+"."+t, i, fn, i, t)
		}
		for _, v := range p.Values {
			fmt.Fprintf(&sb, "\tguest.RegisterConst(%q, g%d.%s)\n", p.Dir+"."+v, i, v)
		}
		if len(p.Ctors) == 0 && len(p.Values) == 0 && len(p.FuncSet) > 0 {
			for fn := range p.FuncSet {
				fmt.Fprintf(&sb, "\t_ = g%d.%s\n", i, fn)
				break
			}
		}
	}
	sb.WriteString("}\n\nfunc main() { guest.Main() }\n")
	sb.WriteString(u.ExtraDrv)
	dir := filepath.Join(u.Dir, "drv_"+u.Name)
	os.MkdirAll(dir, 0o755)
	return os.WriteFile(filepath.Join(dir, "main.go"), []byte(sb.String()), 0o644)
}

func isStructLikeCtor(p *GenPkg, t string) bool {
	// constructors of clients/processors take arguments and were filtered already; what is left
	// are struct-likes, typedef'd struct-likes and synthesized args/result types
	return true
}

var diagRe = regexp.MustCompile(`^(\S+\.go):(\d+):(\d+): (.*)$`)

// Build compiles every unit's generated packages and driver with `go build ./...`.
// Package-load errors (import cycles, mixed package clauses, missing packages) stop the go
// command before it compiles anything, so units with load errors are recorded, set aside and
// the build is repeated for the rest.
func (s *Scratch) Build() (out string, err error) {
	bin := filepath.Join(s.Dir, "bin")
	os.MkdirAll(bin, 0o755)
	byName := map[string]*Unit{}
	for _, u := range s.Units {
		byName[u.Name] = u
	}
	aside := filepath.Join(s.Dir, "_aside")
	for pass := 0; pass < 6; pass++ {
		args := []string{"build"}
		hasMain := false
		for _, u := range s.Units {
			if _, e := os.Stat(filepath.Join(u.Dir, "drv_"+u.Name)); e == nil {
				hasMain = true
			}
		}
		if hasMain {
			args = append(args, "-o", bin+"/")
		}
		if s.Race {
			args = append(args, "-race")
		}
		args = append(args, "./...")
		cmd := exec.Command("go", args...)
		cmd.Dir = s.Dir
		cmd.Env = append(os.Environ(), s.Env...)
		var buf bytes.Buffer
		cmd.Stdout = &buf
		cmd.Stderr = &buf
		err = cmd.Run()
		o := buf.String()
		out += o
		loadErr := map[string]bool{}
		sc := bufio.NewScanner(strings.NewReader(o))
		sc.Buffer(make([]byte, 1<<20), 1<<26)
		prevPkg := ""
		for sc.Scan() {
			ln := sc.Text()
			tl := strings.TrimSpace(ln)
			if m := diagRe.FindStringSubmatch(tl); m != nil {
				p := strings.TrimPrefix(filepath.ToSlash(m[1]), "./")
				parts := strings.Split(p, "/")
				u := byName[parts[0]]
				if u == nil {
					continue
				}
				if len(parts) > 1 && parts[1] == "gen" {
					u.BuildErr = append(u.BuildErr, strings.Join(parts[1:], "/")+":"+m[2]+": "+m[4])
				} else {
					u.DrvErr = append(u.DrvErr, p+":"+m[2]+": "+m[4])
				}
				continue
			}
			// load errors: "package scratch/uNNNN/...", "\timports ...: import cycle not allowed", "found packages a (x.go) and b (y.go) in dir"
			if strings.HasPrefix(tl, "#") {
				continue
			}
			if m := loadRe.FindStringSubmatch(tl); m != nil {
				if u := byName[m[1]]; u != nil {
					msg := tl
					if strings.HasPrefix(tl, "imports ") && prevPkg != "" {
						msg = prevPkg + " " + tl
					}
					if strings.HasPrefix(tl, "package ") && !strings.Contains(tl, ":") {
						prevPkg = tl
						continue
					}
					if !loadErr[u.Name+msg] {
						loadErr[u.Name+msg] = true
						u.BuildErr = append(u.BuildErr, "load: "+msg)
					}
					loadErr[u.Name] = true
				}
			}
			prevPkg = ""
		}
		moved := 0
		for _, u := range s.Units {
			if loadErr[u.Name] {
				os.MkdirAll(aside, 0o755)
				if os.Rename(u.Dir, filepath.Join(aside, u.Name)) == nil {
					moved++
				}
			}
		}
		if moved == 0 {
			break
		}
	}
	for _, u := range s.Units {
		b := filepath.Join(bin, "drv_"+u.Name)
		if _, e := os.Stat(b); e == nil {
			u.Bin = b
		}
	}
	return out, err
}

var loadRe = regexp.MustCompile(`scratch/(u\d+[a-z0-9_]*)/`)

// GuestResult is one result line of a guest.
type GuestResult map[string]interface{}

// RunGuest executes commands in the unit's driver (child process, watchdog).  If the child dies,
// `fatal` holds the classification and lastBegin the id of the command being executed.
func (u *Unit) RunGuest(tag string, cmds []map[string]interface{}) (results map[int]GuestResult, fatal string, lastBegin int, stderr string) {
	results = map[int]GuestResult{}
	lastBegin = -1
	if u.Bin == "" {
		return results, "no-binary", -1, ""
	}
	work := filepath.Join(u.Dir, "run_"+tag)
	os.MkdirAll(work, 0o755)
	cf, rf, lf := filepath.Join(work, "cmds.jsonl"), filepath.Join(work, "results.jsonl"), filepath.Join(work, "log")
	var sb bytes.Buffer
	for i, c := range cmds {
		c["id"] = i
		b, _ := json.Marshal(c)
		sb.Write(b)
		sb.WriteByte('\n')
	}
	os.WriteFile(cf, sb.Bytes(), 0o644)
	res := vlib.RunCLI(work, []string{"GOTRACEBACK=single", "GORACE=halt_on_error=0 log_path=" + filepath.Join(work, "race.log")}, 10*time.Minute, u.Bin, cf, rf, lf)
	stderr = vlib.Trunc(res.Stderr, 4000)
	if f, err := os.Open(rf); err == nil {
		sc := bufio.NewScanner(f)
		sc.Buffer(make([]byte, 1<<20), 1<<28)
		for sc.Scan() {
			var r GuestResult
			if json.Unmarshal(sc.Bytes(), &r) == nil {
				if id, ok := r["id"].(float64); ok {
					results[int(id)] = r
				}
			}
		}
		f.Close()
	}
	done := false
	if b, err := os.ReadFile(lf); err == nil {
		for _, ln := range strings.Split(string(b), "\n") {
			if strings.HasPrefix(ln, "BEGIN ") {
				fmt.Sscanf(ln, "BEGIN %d", &lastBegin)
			}
			if strings.HasPrefix(ln, "DONE") {
				done = true
			}
		}
	}
	if !done {
		switch {
		case res.TimedOut:
			fatal = "timeout"
		case res.Crash != "":
			fatal = res.Crash
		default:
			fatal = fmt.Sprintf("exit-%d", res.Exit)
		}
	}
	return
}

// ParallelGenerate runs Generate for many units on all cores.
func (s *Scratch) ParallelGenerate(units []*Unit) {
	var wg sync.WaitGroup
	sem := make(chan struct{}, 16)
	var mu sync.Mutex
	for _, u := range units {
		wg.Add(1)
		sem <- struct{}{}
		go func(u *Unit) {
			defer wg.Done()
			defer func() { <-sem }()
			u.Dir = filepath.Join(s.Dir, u.Name)
			s.generateNoAppend(u)
			mu.Lock()
			s.Units = append(s.Units, u)
			mu.Unlock()
		}(u)
	}
	wg.Wait()
	sort.Slice(s.Units, func(i, j int) bool { return s.Units[i].Name < s.Units[j].Name })
}

func (s *Scratch) generateNoAppend(u *Unit) {
	tmp := &Scratch{Dir: s.Dir}
	tmp.Generate(u)
}

// SetAside moves a unit's directory out of the module (e.g. a unit thriftgo rejected half-way).
func SetAside(s *Scratch, u *Unit) {
	aside := filepath.Join(s.Dir, "_aside")
	os.MkdirAll(aside, 0o755)
	os.Rename(u.Dir, filepath.Join(aside, u.Name))
}
