package harness

import (
	"encoding/hex"
	"fmt"
	"math"
	"strconv"
	"strings"

	"verif/idl"
)

// ToJV converts a semantic value into the guest's JSON value format.  Struct values are
// rendered as *object states* relative to the constructor: a present field is set, an absent
// optional scalar/binary field with a declared default is omitted (the Go field is a value that
// keeps its default), every other absent field is an explicit null (nil pointer/slice/map).
func ToJV(v *idl.Val) interface{} {
	if v == nil {
		return nil
	}
	switch v.Cat {
	case "bool":
		return v.B
	case "i8", "i16", "i32", "i64", "enum":
		return strconv.FormatInt(v.I, 10)
	case "double":
		return "d" + strconv.FormatUint(math.Float64bits(v.D), 16)
	case "string", "binary":
		return "s" + hex.EncodeToString([]byte(v.S))
	case "list", "set":
		out := make([]interface{}, 0, len(v.L))
		for _, e := range v.L {
			out = append(out, ToJV(e))
		}
		return out
	case "map":
		pairs := make([]interface{}, 0, len(v.M))
		for _, e := range v.M {
			pairs = append(pairs, []interface{}{ToJV(e[0]), ToJV(e[1])})
		}
		return map[string]interface{}{"m": pairs}
	case "struct":
		fs := map[string]interface{}{}
		for _, f := range v.Def.Fields {
			x, ok := v.F[f.ID]
			if ok {
				fs[strconv.Itoa(int(f.ID))] = ToJV(x)
				continue
			}
			cat := idl.WireCat(f.Type)
			scalar := cat != "list" && cat != "set" && cat != "map" && cat != "struct"
			if v.Def.EffReq(f) == idl.ReqOptional && f.Default != nil && scalar {
				continue // value-typed Go field holding its default
			}
			if v.Def.EffReq(f) != idl.ReqOptional && scalar && cat != "binary" {
				continue // non-optional scalar: a Go value, cannot be nil
			}
			fs[strconv.Itoa(int(f.ID))] = nil
		}
		return map[string]interface{}{"f": fs}
	}
	return nil
}

// FromJV converts a guest dump back into a semantic value, directed by the schema.
// A null is an absent field (struct), a nil container or a nil pointer.
func FromJV(jv interface{}, t *idl.Type) (*idl.Val, error) {
	if jv == nil {
		return nil, nil
	}
	r := t.Resolve()
	cat := idl.WireCat(r)
	switch cat {
	case "bool":
		b, ok := jv.(bool)
		if !ok {
			return nil, fmt.Errorf("want bool, got %v", jv)
		}
		return &idl.Val{Cat: cat, B: b}, nil
	case "i8", "i16", "i32", "i64", "enum":
		s, ok := jv.(string)
		if !ok {
			return nil, fmt.Errorf("want int, got %v", jv)
		}
		n, err := strconv.ParseInt(s, 10, 64)
		if err != nil {
			return nil, err
		}
		v := &idl.Val{Cat: cat, I: n}
		if cat == "enum" {
			v.Def = r.Ref
		}
		return v, nil
	case "double":
		s, ok := jv.(string)
		if !ok || !strings.HasPrefix(s, "d") {
			return nil, fmt.Errorf("want double, got %v", jv)
		}
		n, err := strconv.ParseUint(s[1:], 16, 64)
		if err != nil {
			return nil, err
		}
		return &idl.Val{Cat: cat, D: math.Float64frombits(n)}, nil
	case "string", "binary":
		s, ok := jv.(string)
		if !ok || !strings.HasPrefix(s, "s") {
			return nil, fmt.Errorf("want string, got %v", jv)
		}
		b, err := hex.DecodeString(s[1:])
		if err != nil {
			return nil, err
		}
		return &idl.Val{Cat: cat, S: string(b)}, nil
	case "list", "set":
		arr, ok := jv.([]interface{})
		if !ok {
			return nil, fmt.Errorf("want list, got %T", jv)
		}
		out := &idl.Val{Cat: cat, L: []*idl.Val{}}
		for _, e := range arr {
			x, err := FromJV(e, r.Elem)
			if err != nil {
				return nil, err
			}
			if x == nil {
				return nil, fmt.Errorf("nil element in %s", cat)
			}
			out.L = append(out.L, x)
		}
		return out, nil
	case "map":
		obj, ok := jv.(map[string]interface{})
		if !ok {
			return nil, fmt.Errorf("want map, got %T", jv)
		}
		pairs, _ := obj["m"].([]interface{})
		out := &idl.Val{Cat: cat, M: [][2]*idl.Val{}}
		for _, p := range pairs {
			kv, ok := p.([]interface{})
			if !ok || len(kv) != 2 {
				return nil, fmt.Errorf("bad pair")
			}
			k, err := FromJV(kv[0], r.Key)
			if err != nil {
				return nil, err
			}
			x, err := FromJV(kv[1], r.Elem)
			if err != nil {
				return nil, err
			}
			if k == nil || x == nil {
				return nil, fmt.Errorf("nil key or value in map")
			}
			out.M = append(out.M, [2]*idl.Val{k, x})
		}
		return out, nil
	case "struct":
		obj, ok := jv.(map[string]interface{})
		if !ok {
			return nil, fmt.Errorf("want struct, got %T", jv)
		}
		fs, _ := obj["f"].(map[string]interface{})
		out := &idl.Val{Cat: "struct", Def: r.Ref, F: map[int32]*idl.Val{}}
		seen := 0
		for _, f := range r.Ref.Fields {
			x, present := fs[strconv.Itoa(int(f.ID))]
			if !present {
				return nil, fmt.Errorf("dump of %s lacks field id %d (%s): the Go struct has no field tagged with that id", r.Ref.Name, f.ID, f.Name)
			}
			seen++
			if x == nil {
				continue
			}
			v, err := FromJV(x, f.Type)
			if err != nil {
				return nil, fmt.Errorf("%s.%s: %w", r.Ref.Name, f.Name, err)
			}
			out.F[f.ID] = v
		}
		if seen != len(fs) {
			return nil, fmt.Errorf("dump of %s has %d tagged fields, schema has %d", r.Ref.Name, len(fs), len(r.Ref.Fields))
		}
		return out, nil
	}
	return nil, fmt.Errorf("cannot convert to %s", t)
}

// ObjState canonicalises a struct value to the state a Go object shows after decoding it:
// absent fields take their declared default (scalars, strings, binary, containers without
// structs) or, for non-optional scalars, the zero value.  Fields whose default involves a struct
// literal are dropped when absent (fields not mentioned in such a literal are not asserted).
func ObjState(v *idl.Val) *idl.Val {
	if v == nil {
		return nil
	}
	switch v.Cat {
	case "list", "set":
		out := &idl.Val{Cat: v.Cat, L: []*idl.Val{}}
		for _, e := range v.L {
			out.L = append(out.L, ObjState(e))
		}
		return out
	case "map":
		out := &idl.Val{Cat: v.Cat, M: [][2]*idl.Val{}}
		for _, e := range v.M {
			out.M = append(out.M, [2]*idl.Val{ObjState(e[0]), ObjState(e[1])})
		}
		return out
	case "struct":
		out := &idl.Val{Cat: "struct", Def: v.Def, F: map[int32]*idl.Val{}}
		for _, f := range v.Def.Fields {
			var dv *idl.Val
			if f.Default != nil {
				dv = idl.DefaultOf(f)
				if dv == nil || idl.HasStructVal(dv) {
					// a default that is (or holds) a struct literal: fields it does not mention are
					// not asserted, so the whole field is left out of object comparisons
					out.F[f.ID] = &idl.Val{Cat: "unasserted"}
					continue
				}
			}
			if x, ok := v.F[f.ID]; ok {
				out.F[f.ID] = ObjState(x)
				continue
			}
			cat := idl.WireCat(f.Type)
			if dv != nil {
				out.F[f.ID] = dv
				continue
			}
			scalar := cat != "list" && cat != "set" && cat != "map" && cat != "struct" && cat != "binary"
			if scalar && v.Def.EffReq(f) != idl.ReqOptional {
				out.F[f.ID] = idl.ZeroOf(f.Type)
			}
		}
		return out
	}
	c := *v
	return &c
}

// MaskUnasserted copies the "unasserted" markers of a into b (both ObjStates of the same type).
func MaskUnasserted(a, b *idl.Val) {
	if a == nil || b == nil || a.Cat != b.Cat {
		return
	}
	switch a.Cat {
	case "list", "set":
		for i := range a.L {
			if i < len(b.L) {
				MaskUnasserted(a.L[i], b.L[i])
			}
		}
	case "map":
		idx := map[string]*idl.Val{}
		for _, e := range b.M {
			idx[e[0].Canon()] = e[1]
		}
		for _, e := range a.M {
			if y, ok := idx[e[0].Canon()]; ok {
				MaskUnasserted(e[1], y)
			}
		}
	case "struct":
		for id, x := range a.F {
			if x.Cat == "unasserted" {
				b.F[id] = &idl.Val{Cat: "unasserted"}
			} else if y, ok := b.F[id]; ok {
				MaskUnasserted(x, y)
			}
		}
	}
}

// HasStruct reports whether a type contains a struct-like anywhere.
func HasStruct(t *idl.Type) bool {
	r := t.Resolve()
	switch idl.WireCat(r) {
	case "struct":
		return true
	case "list", "set":
		return HasStruct(r.Elem)
	case "map":
		return HasStruct(r.Key) || HasStruct(r.Elem)
	}
	return false
}

// NilEmptyEqual compares two values treating nil and empty containers alike at field level:
// a is the expectation, b the observation.
func NilEmptyCanon(v *idl.Val) string {
	if v == nil {
		return "<nil>"
	}
	if v.Cat == "struct" {
		c := &idl.Val{Cat: "struct", Def: v.Def, F: map[int32]*idl.Val{}}
		for id, x := range v.F {
			if (x.Cat == "list" || x.Cat == "set") && len(x.L) == 0 || x.Cat == "map" && len(x.M) == 0 {
				continue
			}
			c.F[id] = x
		}
		return c.Canon()
	}
	return v.Canon()
}

// AfterRead is the value a re-Write of a freshly read object emits: absent optional fields whose
// declared default is a container keep that default in the Go object and therefore count as set.
// ok=false when such a default cannot be asserted (it contains struct literals).
func AfterRead(v *idl.Val) (out *idl.Val, ok bool) {
	ok = true
	var walk func(v *idl.Val) *idl.Val
	walk = func(v *idl.Val) *idl.Val {
		if v == nil {
			return nil
		}
		switch v.Cat {
		case "list", "set":
			o := &idl.Val{Cat: v.Cat, L: []*idl.Val{}}
			for _, e := range v.L {
				o.L = append(o.L, walk(e))
			}
			return o
		case "map":
			o := &idl.Val{Cat: v.Cat, M: [][2]*idl.Val{}}
			for _, e := range v.M {
				o.M = append(o.M, [2]*idl.Val{walk(e[0]), walk(e[1])})
			}
			return o
		case "struct":
			o := &idl.Val{Cat: "struct", Def: v.Def, F: map[int32]*idl.Val{}}
			for _, f := range v.Def.Fields {
				if x, has := v.F[f.ID]; has {
					o.F[f.ID] = walk(x)
					continue
				}
				cat := idl.WireCat(f.Type)
				if f.Default != nil && v.Def.EffReq(f) == idl.ReqOptional && (cat == "list" || cat == "set" || cat == "map" || cat == "struct") {
					dv := idl.DefaultOf(f)
					if dv == nil || idl.HasStructVal(dv) {
						ok = false
						continue
					}
					o.F[f.ID] = dv
				}
			}
			return o
		}
		c := *v
		return &c
	}
	return walk(v), ok
}

// DeepCanon is Canon with nil and empty containers (and empty binary) identified at every depth.
func DeepCanon(v *idl.Val) string {
	var norm func(v *idl.Val) *idl.Val
	norm = func(v *idl.Val) *idl.Val {
		if v == nil {
			return nil
		}
		switch v.Cat {
		case "list", "set":
			o := &idl.Val{Cat: v.Cat, L: []*idl.Val{}}
			for _, e := range v.L {
				o.L = append(o.L, norm(e))
			}
			return o
		case "map":
			o := &idl.Val{Cat: v.Cat, M: [][2]*idl.Val{}}
			for _, e := range v.M {
				o.M = append(o.M, [2]*idl.Val{norm(e[0]), norm(e[1])})
			}
			return o
		case "struct":
			o := &idl.Val{Cat: "struct", Def: v.Def, F: map[int32]*idl.Val{}}
			for id, x := range v.F {
				if (x.Cat == "list" || x.Cat == "set") && len(x.L) == 0 || x.Cat == "map" && len(x.M) == 0 || x.Cat == "binary" && x.S == "" {
					continue
				}
				o.F[id] = norm(x)
			}
			return o
		}
		return v
	}
	return norm(v).Canon()
}
