#!/bin/bash
# tools/seed_eval.sh <round letter> [ids...] : import /tmp/wt/CNN/_seeded/<L> as seeded/CNN-<L> and run the property's quick check on it
L=$1; shift
IDS=${@:-$(seq -f "C%02g" 1 20)}
cd /verif
for id in $IDS; do
  [ -f /tmp/wt/$id/_seeded/$L/patch.diff ] || { echo "$id-$L: not delivered"; continue; }
  imp=$(tools/seed_import.sh /tmp/wt/$id/_seeded/$L $id-$L | tail -1)
  rm -f /tmp/mut.$id.log
  tools/mut.sh seeded/$id-$L/patch.diff $id > /tmp/eval.$id-$L.log 2>&1
  rc=$(grep -o "mut: exit=[0-9]*" /tmp/eval.$id-$L.log | cut -d= -f2)
  keys=$(grep -A1 "^VIOLATION" /tmp/mut.$id.log 2>/dev/null | grep "key:" | sed 's/ *key: //' | sort -u | head -3 | tr '\n' ' ')
  echo "$id-$L [$imp] exit=${rc:-NOAPPLY} $keys"
done
