#!/bin/bash
# tools/mut.sh <patch.diff> <CNN> [tier]  : apply a seeded change to /repo, run the check, undo it.
set -u
P=$(realpath $1); ID=$2; TIER=${3:-quick}
cd /repo || exit 2
[ -n "$(git status --porcelain --untracked-files=no)" ] && { echo "mut: /repo not clean"; exit 2; }
if ! git apply --check "$P" 2>/dev/null; then
  if ! git apply -3 "$P" 2>/dev/null; then echo "mut: patch does not apply: $P"; git reset -q --hard HEAD; exit 3; fi
  git reset -q
else
  git apply "$P"
fi
cd /verif
cp evidence/$ID.json /tmp/.ev.$ID.bak 2>/dev/null
./check $ID $TIER > /tmp/mut.$ID.log 2>&1; rc=$?
cp /tmp/.ev.$ID.bak evidence/$ID.json 2>/dev/null
git -C /repo checkout -- . 
grep -E "^(VIOLATION|KNOWN|SUMMARY|MACHINERY|INCONCLUSIVE)" /tmp/mut.$ID.log | cut -c1-220 | head -${MUT_LINES:-8}
grep -A1 "^VIOLATION" /tmp/mut.$ID.log | grep "key:" | sort | uniq -c | head -10
echo "mut: exit=$rc patch=$P"
