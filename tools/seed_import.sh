#!/bin/bash
# tools/seed_import.sh <srcdir (with patch.diff, meta.json, demo)> <seed-id e.g. C19-B>
set -u
SRC=$1; ID=$2; DST=/verif/seeded/$ID
mkdir -p $DST; cp -r $SRC/. $DST/
cd /repo
if git apply --check $DST/patch.diff 2>/dev/null; then echo "applies cleanly"; else
  if git apply -3 $DST/patch.diff 2>/dev/null; then git diff HEAD > $DST/patch.rebased.diff; git reset -q --hard HEAD; mv $DST/patch.diff $DST/patch.orig.diff; mv $DST/patch.rebased.diff $DST/patch.diff; echo "rebased via 3-way"; else git reset -q --hard HEAD; echo "NEEDS MANUAL REBASE"; fi
fi
