#!/bin/bash
# tools/seed_sweep.sh [tier] : apply every seeded change in turn, run the check of its property, undo it,
# and record which finding keys fired in seeded/RESULTS.tsv (id, exit status, keys).
TIER=${1:-quick}
cd /verif
OUT=seeded/RESULTS.tsv
echo -e "seed\ttier\texit\tviolation keys" > $OUT
for d in seeded/C*-*; do
  id=$(basename $d); prop=${id%-*}
  rm -f /tmp/mut.$prop.log
  MUT_LINES=0 tools/mut.sh $d/patch.diff $prop $TIER > /tmp/sweep.$id.log 2>&1
  rc=$(grep -o "mut: exit=[0-9]*" /tmp/sweep.$id.log | cut -d= -f2)
  [ -z "$rc" ] && rc="patch-does-not-apply"
  keys=$(grep -A1 "^VIOLATION" /tmp/mut.$prop.log | grep "key:" | sed 's/ *key: //' | sort -u | head -6 | tr '\n' ' ')
  echo -e "$id\t$TIER\t$rc\t$keys" >> $OUT
  echo "$id exit=$rc $keys"
done
git -C /repo status --short | head -3
