#!/bin/bash
# validates MANIFEST.json and every evidence file against the schemas
python3-vt - <<'P'
import json,jsonschema,glob,sys
jsonschema.validate(json.load(open('/verif/MANIFEST.json')),json.load(open('/root/.vp/MANIFEST.schema.json')))
s=json.load(open('/root/.vp/EVIDENCE.schema.json'))
for f in sorted(glob.glob('/verif/evidence/*.json')):
    try: jsonschema.validate(json.load(open(f)),s)
    except Exception as e: print('INVALID',f,str(e)[:300]); sys.exit(1)
print('manifest + evidence valid')
P
