#!/usr/bin/env python3
"""Regenerates MANIFEST.json from tools/checks.json (claimed checks) + properties.jsonl.
Every property without an entry in checks.json is listed under not_applicable with its reason
from tools/not_claimed.json (default: machinery not built yet)."""
import json, subprocess
props=[json.loads(l) for l in open('/verif/properties.jsonl')]
checks=json.load(open('/verif/tools/checks.json'))
try: nc=json.load(open('/verif/tools/not_claimed.json'))
except Exception: nc={}
hooks=[l.split()[0] for l in subprocess.run(['git','-C','/repo','log','--format=%H %s'],capture_output=True,text=True).stdout.splitlines() if ' verif hook' in l]
m={"version":1,
 "setup_cmd":"./check --setup",
 "hooks":{"guard":"verif","enable":"go build -tags verif (done by ./check for thriftgo, trimmer and the host tool vf, from /repo's working tree)",
  "baseline_off_cmd":"for m in $(cat /w/out/gomods.txt); do MF=$(cd /repo/$m && . /w/out/goenv.sh && gomodflag); (cd /repo/$m && go test $MF -json -vet=off -count=1 -timeout 25m ./...); done",
  "source_commits":hooks,"add_only":True},
 "engines":[{"name":"vf","path":"cmd/vf","serves_properties":sorted(checks.keys()),"kind_free_text":"Go host tool linking /repo's packages; per-property monitors over executions of the real binaries, libraries and generated code"}],
 "checks":[], "not_applicable":[],
 "notes":"Technique family: runtime monitoring and sanitizers. See DESIGN.md."}
for p in props:
    i=p['id']
    if i in checks:
        c=checks[i]
        m['checks'].append({"property_id":i,"quick_cmd":"./check %s quick"%i,"thorough_cmd":"./check %s thorough"%i,
          "evidence_file":"/verif/evidence/%s.json"%i,"replay_cmd_template":"./check %s --replay {path}"%i,"engine":"vf",
          "level_claimed":{"category":c['level'],"text":c['text'],"design_ref":"DESIGN.md §2 "+i},
          "level_note":c['note'],"technique":c['technique']})
    else:
        m['not_applicable'].append({"property_id":i,"reason":nc.get(i,"check not built yet in this framework (planned, see DESIGN.md §2 %s); not claimed until its monitor runs silently on the unchanged tree"%i)})
json.dump(m,open('/verif/MANIFEST.json','w'),indent=1)
print(len(m['checks']),'claimed',len(m['not_applicable']),'not claimed')
