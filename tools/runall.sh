#!/bin/bash
# tools/runall.sh [tier] [ids...] : run checks sequentially, print one summary line each
TIER=${1:-quick}; shift
IDS=${@:-$(python3 -c "import json; print(' '.join(c['property_id'] for c in json.load(open('/verif/MANIFEST.json'))['checks']))")}
cd /verif
for id in $IDS; do
  ./check $id $TIER > /tmp/runall.$id.log 2>&1; rc=$?
  echo "$id rc=$rc $(grep -c '^VIOLATION' /tmp/runall.$id.log) violations; $(grep '^SUMMARY\|^MACHINERY' /tmp/runall.$id.log | tail -1 | cut -c1-200)"
done
