// recplugin is the recording thriftgo plugin of /verif (C07, C11).  It stores the bytes it receives on
// stdin and a canonical dump of the request it decodes with the real plugin package, then answers as its
// script says.
//
//	REC_DIR     directory for stdin.bin, request.json and markers (created)
//	REC_SCRIPT  JSON: {"mode": "ok"|"error"|"exit"|"garbage"|"truncate"|"silent"|"sleep",
//	             "files":[{"name","content","insertion_point"}], "warnings":[..], "error":"..",
//	             "exit":N, "stderr":"..", "sleep_ms":N}
package main

import (
	"encoding/json"
	"fmt"
	"io"
	"os"
	"path/filepath"
	"strings"
	"time"

	"github.com/cloudwego/thriftgo/plugin"

	"verif/guest"
)

type script struct {
	Mode  string `json:"mode"`
	Files []struct {
		Name           string  `json:"name"`
		Content        string  `json:"content"`
		InsertionPoint *string `json:"insertion_point"`
	} `json:"files"`
	Warnings []string `json:"warnings"`
	Error    string   `json:"error"`
	Exit     int      `json:"exit"`
	Stderr   string   `json:"stderr"`
	SleepMs  int      `json:"sleep_ms"`
}

func main() {
	dir := os.Getenv("REC_DIR")
	if dir == "" {
		dir = "."
	}
	data, rerr := io.ReadAll(os.Stdin)
	// decode first: a plugin parameter slot=<name> selects a sub-directory (several plugins in one run)
	var req *plugin.Request
	var derr error
	var dpanic interface{}
	func() {
		defer func() { dpanic = recover() }()
		req, derr = plugin.UnmarshalRequest(data)
	}()
	slot := ""
	if req != nil {
		for _, p := range req.PluginParameters {
			if strings.HasPrefix(p, "slot=") {
				slot = strings.TrimPrefix(p, "slot=")
			}
		}
	}
	// a copy or link of this binary named rec_<slot> selects the slot by its name (plugins without parameters)
	if b := filepath.Base(os.Args[0]); strings.HasPrefix(b, "rec_") {
		slot = strings.TrimPrefix(b, "rec_")
	}
	if slot != "" {
		dir = filepath.Join(dir, slot)
	}
	os.MkdirAll(dir, 0o755)
	os.WriteFile(filepath.Join(dir, "started"), []byte(fmt.Sprint(os.Getpid())), 0o644)
	if rerr != nil {
		os.WriteFile(filepath.Join(dir, "read-error"), []byte(rerr.Error()), 0o644)
	}
	os.WriteFile(filepath.Join(dir, "stdin.bin"), data, 0o644)
	switch {
	case dpanic != nil:
		os.WriteFile(filepath.Join(dir, "decode-panic"), []byte(fmt.Sprint(dpanic)), 0o644)
	case derr != nil:
		os.WriteFile(filepath.Join(dir, "decode-error"), []byte(derr.Error()), 0o644)
	default:
		b, _ := json.Marshal(guest.Canon(req))
		os.WriteFile(filepath.Join(dir, "request.json"), b, 0o644)
	}
	var sc script
	env := "REC_SCRIPT"
	if slot != "" && os.Getenv("REC_SCRIPT_"+slot) != "" {
		env = "REC_SCRIPT_" + slot
	}
	if s := os.Getenv(env); s != "" {
		if err := json.Unmarshal([]byte(s), &sc); err != nil {
			os.WriteFile(filepath.Join(dir, "script-error"), []byte(err.Error()), 0o644)
		}
	}
	if sc.Stderr != "" {
		fmt.Fprint(os.Stderr, sc.Stderr)
	}
	if sc.SleepMs > 0 {
		time.Sleep(time.Duration(sc.SleepMs) * time.Millisecond)
		// only reached when nobody killed the process
		os.WriteFile(filepath.Join(dir, "woke-up"), []byte("1"), 0o644)
	}
	res := plugin.NewResponse()
	for _, f := range sc.Files {
		g := &plugin.Generated{Content: f.Content, InsertionPoint: f.InsertionPoint}
		if f.Name != "" {
			n := f.Name
			g.Name = &n
		}
		res.Contents = append(res.Contents, g)
	}
	res.Warnings = sc.Warnings
	if sc.Mode == "error" {
		e := sc.Error
		res.Error = &e
	}
	out, _ := plugin.MarshalResponse(res)
	switch sc.Mode {
	case "garbage":
		os.Stdout.Write([]byte("this is not a thrift response \x00\x01\x02"))
	case "truncate":
		if len(out) > 3 {
			os.Stdout.Write(out[:len(out)/2])
		}
	case "silent":
	case "exit":
		os.Stdout.Write(out)
		os.Exit(sc.Exit)
	default:
		os.Stdout.Write(out)
	}
	os.WriteFile(filepath.Join(dir, "finished"), []byte("1"), 0o644)
	if sc.Mode != "exit" && sc.Exit != 0 {
		os.Exit(sc.Exit)
	}
}
