// vf is the host tool of the verification framework: one sub-command per property.
package main

import (
	"fmt"
	"os"

	"verif/props"
	"verif/vlib"
)

type entry struct {
	level string
	fn    func(*vlib.Run)
}

var registry = map[string]entry{
	"C01": {"exploration", props.C01},
	"C02": {"exploration", props.C02},
	"C03": {"exploration", props.C03},
	"C04": {"exploration", props.C04},
	"C05": {"exploration", props.C05},
	"C06": {"exploration", props.C06},
	"C07": {"exploration", props.C07},
	"C08": {"exploration", props.C08},
	"C09": {"exploration", props.C09},
	"C10": {"fault_enumeration", props.C10},
	"C11": {"exploration", props.C11},
	"C12": {"exploration", props.C12},
	"C13": {"exploration", props.C13},
	"C14": {"exploration", props.C14},
	"C15": {"exploration", props.C15},
	"C16": {"exploration", props.C16},
	"C17": {"exploration", props.C17},
	"C18": {"exploration", props.C18},
	"C19": {"fault_enumeration", props.C19},
	"C20": {"exploration", props.C20},
}

func main() {
	if len(os.Args) == 4 && os.Args[1] == "--c03-child" {
		props.C03Child(os.Args[2], os.Args[3])
		return
	}
	if len(os.Args) < 3 {
		fmt.Println("usage: vf CNN quick|thorough")
		os.Exit(2)
	}
	prop, tier := os.Args[1], os.Args[2]
	e, ok := registry[prop]
	if !ok {
		fmt.Printf("MACHINERY-FAILURE property=%s no such check\n", prop)
		os.Exit(2)
	}
	if tier != "quick" && tier != "thorough" {
		tier = "quick"
	}
	r := vlib.NewRun(prop, tier, e.level)
	e.fn(r)
	os.Exit(r.Finish())
}
