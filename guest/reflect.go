package guest

// Reflection-descriptor observation (C15): a canonical, order-independent dump of descriptor objects and
// the answers of the lookup API, produced by the same code in the host (descriptors built in-process) and in
// guests (descriptors registered by generated packages).

import (
	"encoding/json"
	"fmt"
	"math"
	"reflect"
	"sort"
	"strconv"

	tr "github.com/cloudwego/thriftgo/thrift_reflection"
)

// Canon turns any value into JSON-able data: structs -> map by field name (fields named in skip are left
// out), pointers -> pointee or nil, slices -> list (nil == empty), maps -> {"map": sorted [key,value] pairs}
// (nil == empty; keys may be pointers), integers -> decimal strings, floats -> "d<hex bits>".
func Canon(v interface{}, skip ...string) interface{} {
	sk := map[string]bool{}
	for _, s := range skip {
		sk[s] = true
	}
	return canon(reflect.ValueOf(v), sk, 0)
}

// CanonShared is Canon for object graphs in which pointers to structs named "Thrift" (parsed IDL files) may
// be shared: the first visit of such a node is dumped with "#id", later visits as {"#ref": id}, so that two
// graphs are equal only if they share the same nodes in the same places.
func CanonShared(v interface{}, skip ...string) interface{} {
	sk := map[string]bool{}
	for _, s := range skip {
		sk[s] = true
	}
	shared = map[uintptr]int{}
	defer func() { shared = nil }()
	return canon(reflect.ValueOf(v), sk, 0)
}

var shared map[uintptr]int

func canon(v reflect.Value, skip map[string]bool, depth int) interface{} {
	if !v.IsValid() || depth > 200 {
		return nil
	}
	switch v.Kind() {
	case reflect.Ptr, reflect.Interface:
		if v.IsNil() {
			return nil
		}
		if shared != nil && v.Kind() == reflect.Ptr && v.Elem().Kind() == reflect.Struct && v.Elem().Type().Name() == "Thrift" {
			if id, ok := shared[v.Pointer()]; ok {
				return map[string]interface{}{"#ref": strconv.Itoa(id)}
			}
			id := len(shared) + 1
			shared[v.Pointer()] = id
			m, _ := canon(v.Elem(), skip, depth+1).(map[string]interface{})
			if m != nil {
				m["#id"] = strconv.Itoa(id)
			}
			return m
		}
		return canon(v.Elem(), skip, depth+1)
	case reflect.Struct:
		out := map[string]interface{}{}
		t := v.Type()
		for i := 0; i < t.NumField(); i++ {
			f := t.Field(i)
			if f.PkgPath != "" || skip[f.Name] {
				continue
			}
			out[f.Name] = canon(v.Field(i), skip, depth+1)
		}
		return out
	case reflect.Slice, reflect.Array:
		out := []interface{}{}
		for i := 0; i < v.Len(); i++ {
			out = append(out, canon(v.Index(i), skip, depth+1))
		}
		return out
	case reflect.Map:
		type kv struct {
			k string
			p []interface{}
		}
		var kvs []kv
		it := v.MapRange()
		for it.Next() {
			k := canon(it.Key(), skip, depth+1)
			val := canon(it.Value(), skip, depth+1)
			b, _ := json.Marshal(k)
			bv, _ := json.Marshal(val)
			kvs = append(kvs, kv{string(b) + "\x00" + string(bv), []interface{}{k, val}})
		}
		sort.SliceStable(kvs, func(i, j int) bool { return kvs[i].k < kvs[j].k })
		pairs := []interface{}{}
		for _, e := range kvs {
			pairs = append(pairs, e.p)
		}
		return map[string]interface{}{"map": pairs}
	case reflect.String:
		return v.String()
	case reflect.Bool:
		return v.Bool()
	case reflect.Int, reflect.Int8, reflect.Int16, reflect.Int32, reflect.Int64:
		return strconv.FormatInt(v.Int(), 10)
	case reflect.Uint, reflect.Uint8, reflect.Uint16, reflect.Uint32, reflect.Uint64:
		return strconv.FormatUint(v.Uint(), 10)
	case reflect.Float32, reflect.Float64:
		return fmt.Sprintf("d%016x", math.Float64bits(v.Float()))
	}
	return fmt.Sprintf("<%s>", v.Kind())
}

func guard(f func()) (pn string) {
	defer func() {
		if e := recover(); e != nil {
			pn = fmt.Sprint(e)
		}
	}()
	f()
	return ""
}

func nameFile(name, file string) interface{} { return []interface{}{name, file} }

// ReflectAPI exercises the lookup API of the registry the descriptors belong to.
//
//	lookups: list of {"kind","name","file","service"}; file "" searches every registered file.
func ReflectAPI(gd *tr.GlobalDescriptor, fds []*tr.FileDescriptor, lookups []interface{}) map[string]interface{} {
	out := map[string]interface{}{}
	// ---- every named type expression resolved through the API ----
	seen := map[string]bool{}
	var typeres []interface{}
	var visitType func(td *tr.TypeDescriptor)
	visitType = func(td *tr.TypeDescriptor) {
		if td == nil {
			return
		}
		visitType(td.KeyType)
		visitType(td.ValueType)
		if td.IsBasic() || td.IsContainer() || td.Name == "void" {
			return
		}
		k := td.Filepath + "\x00" + td.Name
		if seen[k] {
			return
		}
		seen[k] = true
		e := map[string]interface{}{"file": td.Filepath, "name": td.Name}
		if pn := guard(func() {
			if sd, _ := td.GetStructDescriptor(); sd != nil {
				e["struct"] = nameFile(sd.Name, sd.Filepath)
			}
			if sd, _ := td.GetUnionDescriptor(); sd != nil {
				e["union"] = nameFile(sd.Name, sd.Filepath)
			}
			if sd, _ := td.GetExceptionDescriptor(); sd != nil {
				e["exception"] = nameFile(sd.Name, sd.Filepath)
			}
			if ed, _ := td.GetEnumDescriptor(); ed != nil {
				e["enum"] = nameFile(ed.Name, ed.Filepath)
			}
			if ty, _ := td.GetTypedefDescriptor(); ty != nil {
				e["typedef"] = nameFile(ty.Alias, ty.Filepath)
			}
			e["flags"] = fmt.Sprintf("struct=%v union=%v exception=%v enum=%v typedef=%v", td.IsStruct(), td.IsUnion(), td.IsException(), td.IsEnum(), td.IsTypedef())
		}); pn != "" {
			e["panic"] = pn
		}
		typeres = append(typeres, e)
	}
	var services, fieldsBad []interface{}
	for _, fd := range fds {
		if fd == nil {
			continue
		}
		sls := append(append(append([]*tr.StructDescriptor{}, fd.Structs...), fd.Unions...), fd.Exceptions...)
		for _, sd := range sls {
			for _, f := range sd.Fields {
				visitType(f.Type)
				if pn := guard(func() {
					if g := sd.GetFieldById(f.ID); g == nil || g.Name != f.Name {
						fieldsBad = append(fieldsBad, fmt.Sprintf("%s.%s: GetFieldById(%d) finds %v", sd.Name, f.Name, f.ID, g))
					}
					if g := sd.GetFieldByName(f.Name); g == nil || g.ID != f.ID {
						fieldsBad = append(fieldsBad, fmt.Sprintf("%s.%s: GetFieldByName finds %v", sd.Name, f.Name, g))
					}
				}); pn != "" {
					fieldsBad = append(fieldsBad, "panic: "+pn)
				}
			}
		}
		for _, td := range fd.Typedefs {
			visitType(td.Type)
		}
		for _, c := range fd.Consts {
			visitType(c.Type)
		}
		for _, s := range fd.Services {
			e := map[string]interface{}{"file": s.Filepath, "name": s.Name}
			if pn := guard(func() {
				if p := s.GetParent(); p != nil {
					e["parent"] = nameFile(p.Name, p.Filepath)
				}
				var all []interface{}
				for _, m := range s.GetAllMethods() {
					all = append(all, nameFile(m.Name, m.Filepath))
				}
				e["all"] = all
			}); pn != "" {
				e["panic"] = pn
			}
			services = append(services, e)
			for _, m := range s.Methods {
				visitType(m.Response)
				for _, a := range m.Args {
					visitType(a.Type)
				}
				for _, a := range m.ThrowExceptions {
					visitType(a.Type)
				}
			}
		}
	}
	out["typeres"] = typeres
	out["services"] = services
	out["fields_bad"] = fieldsBad
	// ---- lookups ----
	var lres []interface{}
	for _, x := range lookups {
		q, _ := x.(map[string]interface{})
		kind, _ := q["kind"].(string)
		name, _ := q["name"].(string)
		file, _ := q["file"].(string)
		svc, _ := q["service"].(string)
		var got interface{}
		pn := guard(func() {
			switch kind {
			case "fd":
				if d := gd.LookupFD(file); d != nil {
					got = nameFile("", d.Filepath)
				}
			case "struct":
				if d := gd.LookupStruct(name, file); d != nil {
					got = nameFile(d.Name, d.Filepath)
				}
			case "union":
				if d := gd.LookupUnion(name, file); d != nil {
					got = nameFile(d.Name, d.Filepath)
				}
			case "exception":
				if d := gd.LookupException(name, file); d != nil {
					got = nameFile(d.Name, d.Filepath)
				}
			case "enum":
				if d := gd.LookupEnum(name, file); d != nil {
					got = nameFile(d.Name, d.Filepath)
				}
			case "typedef":
				if d := gd.LookupTypedef(name, file); d != nil {
					got = nameFile(d.Alias, d.Filepath)
				}
			case "const":
				if d := gd.LookupConst(name, file); d != nil {
					got = nameFile(d.Name, d.Filepath)
				}
			case "service":
				if d := gd.LookupService(name, file); d != nil {
					got = nameFile(d.Name, d.Filepath)
				}
			case "method":
				if d := gd.LookupMethod(name, svc, file); d != nil {
					got = nameFile(d.Name, d.Filepath)
				}
			}
		})
		r := map[string]interface{}{"got": got}
		if pn != "" {
			r["panic"] = pn
		}
		lres = append(lres, r)
	}
	out["lookups"] = lres
	return out
}

// ---- guest side registrations (generated packages) ----

var fileDescs = map[string]func() interface{}{}
var enumTypes = map[string]func() interface{}{}

func RegisterFileDesc(key string, f func() interface{}) { fileDescs[key] = f }
func RegisterEnum(key string, nw func() interface{})    { enumTypes[key] = nw }

func init() {
	RegisterOp("reflect", func(cmd map[string]interface{}) map[string]interface{} {
		out := map[string]interface{}{}
		files := map[string]interface{}{}
		var fds []*tr.FileDescriptor
		var keys []string
		for k := range fileDescs {
			keys = append(keys, k)
		}
		sort.Strings(keys)
		for _, k := range keys {
			fd, _ := fileDescs[k]().(*tr.FileDescriptor)
			files[k] = Canon(fd, "Extra")
			if fd != nil {
				fds = append(fds, fd)
			}
		}
		out["files"] = files
		// struct-likes: Go type <-> descriptor
		var sts []interface{}
		for _, k := range typeOrder {
			ti := types[k]
			obj := ti.Zero()
			e := map[string]interface{}{"key": k}
			if pn := guard(func() {
				m := reflect.ValueOf(obj).MethodByName("GetDescriptor")
				if !m.IsValid() {
					e["nodesc"] = true
					return
				}
				sd, _ := m.Call(nil)[0].Interface().(*tr.StructDescriptor)
				if sd == nil {
					e["desc"] = nil
					return
				}
				e["desc"] = nameFile(sd.Name, sd.Filepath)
				by := tr.GetStructDescriptorByGoType(obj)
				e["same"] = by == sd
				if by != nil {
					e["bygotype"] = nameFile(by.Name, by.Filepath)
				}
				e["gotype_back"] = sd.GetGoType() == reflect.TypeOf(obj).Elem()
				if tm := reflect.ValueOf(obj).MethodByName("GetTypeDescriptor"); tm.IsValid() {
					td, _ := tm.Call(nil)[0].Interface().(*tr.TypeDescriptor)
					if td != nil {
						e["tdesc"] = nameFile(td.Name, td.Filepath)
					}
				}
			}); pn != "" {
				e["panic"] = pn
			}
			sts = append(sts, e)
		}
		out["structs"] = sts
		var ens []interface{}
		keys = keys[:0]
		for k := range enumTypes {
			keys = append(keys, k)
		}
		sort.Strings(keys)
		for _, k := range keys {
			obj := enumTypes[k]() // *Enum
			e := map[string]interface{}{"key": k}
			if pn := guard(func() {
				m := reflect.ValueOf(obj).Elem().MethodByName("GetDescriptor")
				ed, _ := m.Call(nil)[0].Interface().(*tr.EnumDescriptor)
				if ed == nil {
					e["desc"] = nil
					return
				}
				e["desc"] = nameFile(ed.Name, ed.Filepath)
				by := tr.GetEnumDescriptorByGoType(obj)
				e["same"] = by == ed
				if by != nil {
					e["bygotype"] = nameFile(by.Name, by.Filepath)
				}
				e["gotype_back"] = ed.GetGoType() == reflect.TypeOf(obj).Elem()
			}); pn != "" {
				e["panic"] = pn
			}
			ens = append(ens, e)
		}
		out["enums"] = ens
		var gd *tr.GlobalDescriptor
		if len(fds) > 0 {
			gd = tr.GetGlobalDescriptor(fds[0])
		}
		lookups, _ := cmd["lookups"].([]interface{})
		for k, v := range ReflectAPI(gd, fds, lookups) {
			out[k] = v
		}
		return out
	})
}
